#!/bin/bash
# round 2: usage seed_confirm2.sh <ID>; reads "// crate-dir: X  package: Y" from SEED/demo.rs (or uses SEED/demo.sh)
id="$1"; root=${SEED_ROOT:-/tmp/seed2}; w=$root/$id; out=/verif/seeded/${SEED_ROUND:-round2}/$id
mkdir -p $out; cd $w || exit 2
export CARGO_TARGET_DIR=$w/target
cdir=$(head -3 SEED/demo.rs 2>/dev/null | grep -o "crate-dir: *[a-z_]*" | head -1 | sed 's/crate-dir: *//')
pkg=$(head -3 SEED/demo.rs 2>/dev/null | grep -o "package: *[a-z_]*" | head -1 | sed 's/package: *//')
{
echo "### confirm round 2 $id $(date -u +%FT%TZ)  crate-dir=$cdir package=$pkg"
git checkout -q -- . && git apply SEED/patch.diff || { echo "RESULT patch_does_not_apply"; exit 1; }
echo "--- git diff --stat (product change)"; git diff --stat
echo "--- (1) stable baseline tests with the change"
cargo test --offline -p inkayaku_core -p inkayaku_board -p inkayaku_uci -p inkayaku_engine_core -- --skip run_all --skip test_threefold_ 2>&1 | grep -E "^test result|FAILED|panicked|error"
base=${PIPESTATUS[0]}; echo "baseline exit=$base"
if [ -f SEED/demo.sh ] && [ -z "$cdir" ]; then
  echo "--- (2) demo.sh WITH the change (must fail)"; sh SEED/demo.sh 2>&1 | grep -E "^test |^test result|error(\[|:)" | head -30; with=${PIPESTATUS[0]}
  git checkout -q -- .
  echo "--- (3) demo.sh WITHOUT the change (must pass)"; sh SEED/demo.sh 2>&1 | grep -E "^test result|error(\[|:)" | head; without=${PIPESTATUS[0]}
else
  demo=$cdir/tests/seed_demo.rs
  echo "--- (2) demonstration WITH the change (must fail)"
  mkdir -p $cdir/tests; cp SEED/demo.rs $demo
  cargo test --offline -p $pkg --test seed_demo 2>&1 | grep -E "^test |^test result|error(\[|:)" | head -30; with=${PIPESTATUS[0]}
  echo "--- (3) demonstration WITHOUT the change (must pass)"
  rm -f $demo; git apply -R SEED/patch.diff; mkdir -p $cdir/tests; cp SEED/demo.rs $demo
  cargo test --offline -p $pkg --test seed_demo 2>&1 | grep -E "^test result|error(\[|:)" | head; without=${PIPESTATUS[0]}
  rm -f $demo
fi
echo "demo with change exit=$with"; echo "demo without change exit=$without"
git checkout -q -- .
if [ $base -eq 0 ] && [ $with -ne 0 ] && [ $without -eq 0 ]; then echo "RESULT confirmed"; else echo "RESULT NOT_CONFIRMED base=$base with=$with without=$without"; fi
} > $out/confirm.log 2>&1
cp SEED/patch.diff SEED/demo.rs SEED/demo.sh SEED/notes.md $out/ 2>/dev/null
tail -1 $out/confirm.log
