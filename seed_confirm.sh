#!/bin/bash
# usage: seed_confirm.sh <ID> [crate-dir=board] [cargo-package=inkayaku_board]
# Confirms an independently written seeded change in its scratch worktree /tmp/seed/<ID>:
#   (1) with the change the stable baseline tests pass, (2) the demonstration fails with the change,
#   (3) the demonstration passes without it. Writes /verif/seeded/<ID>/confirm.log and copies the artefacts.
id="$1"; cdir="${2:-board}"; pkg="${3:-inkayaku_board}"
w=/tmp/seed/$id; out=/verif/seeded/$id
mkdir -p $out; cd $w || exit 2
export CARGO_TARGET_DIR=$w/target
lc=$(echo $id | tr 'A-Z' 'a-z')
demo=$cdir/tests/seed_${lc}_demo.rs
{
echo "### confirm $id $(date -u +%FT%TZ)"
rm -f $demo
git checkout -q -- . && git apply SEED/patch.diff || { echo "RESULT patch_does_not_apply"; exit 1; }
echo "--- git diff --stat (product change)"; git diff --stat
echo "--- (1) stable baseline tests with the change"
cargo test --offline -p inkayaku_core -p inkayaku_board -p inkayaku_uci -p inkayaku_engine_core -- --skip run_all --skip test_threefold_ 2>&1 | grep -E "^test result|FAILED|panicked|error" 
base=${PIPESTATUS[0]}
echo "baseline exit=$base"
echo "--- (2) demonstration WITH the change (must fail)"
mkdir -p $cdir/tests; cp SEED/demo.rs $demo
cargo test --offline -p $pkg --test seed_${lc}_demo 2>&1 | grep -E "^test |^test result|error(\[|:)" | head -30
with=${PIPESTATUS[0]}
echo "demo with change exit=$with"
echo "--- (3) demonstration WITHOUT the change (must pass)"
rm -f $demo; git apply -R SEED/patch.diff; mkdir -p $cdir/tests; cp SEED/demo.rs $demo
cargo test --offline -p $pkg --test seed_${lc}_demo 2>&1 | grep -E "^test result|error(\[|:)" | head -10
without=${PIPESTATUS[0]}
echo "demo without change exit=$without"
rm -f $demo; git checkout -q -- .
if [ $base -eq 0 ] && [ $with -ne 0 ] && [ $without -eq 0 ]; then echo "RESULT confirmed"; else echo "RESULT NOT_CONFIRMED base=$base with=$with without=$without"; fi
} > $out/confirm.log 2>&1
cp SEED/patch.diff SEED/demo.rs SEED/notes.md $out/ 2>/dev/null
tail -1 $out/confirm.log
