#!/bin/bash
# usage: seed_eval.sh <patch.diff> <check> [<check> ...]   — applies the patch to /repo, runs the quick checks, reverts
patch="$1"; shift
# one mutator of /repo at a time (seed_regress.sh takes the same lock per seed)
exec 9>/tmp/repo_mutation.lock; flock 9
cd /repo || exit 2
if ! git diff --quiet; then echo "/repo is dirty, refusing"; exit 2; fi
git apply "$patch" || { echo "patch does not apply"; exit 2; }
for c in "$@"; do
  out=$(cd /verif && IVK_NO_EVIDENCE=1 ./check $c quick 2>&1); code=$?
  echo "== $c exit=$code"
  echo "$out" | grep -E "VIOLATION|KNOWN-FINDING|MACHINERY" | head -6
  echo "$out" | tail -1
done
git checkout -- . && git status --short | head -3
