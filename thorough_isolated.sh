#!/bin/bash
# Runs a tier of all checks on an ISOLATED snapshot of /repo (git worktree at HEAD) and of the committed
# /verif, so that seeded changes applied to /repo meanwhile cannot leak into the run.
# usage: thorough_isolated.sh [tier=thorough] [tag] ; log: /verif/target/isolated_<tier><tag>.log ; CHECKS="C08 C13" restricts the run
tier=${1:-thorough}
tag=${2:-}
SNAP=/tmp/isolated_$tier$tag
git -C /repo worktree remove --force $SNAP/repo 2>/dev/null; rm -rf $SNAP; mkdir -p $SNAP
git -C /repo worktree add --detach $SNAP/repo HEAD >/dev/null 2>&1 || exit 2
mkdir -p $SNAP/verif && git -C /verif archive HEAD | tar -x -C $SNAP/verif
sed -i "s#\"/repo/#\"$SNAP/repo/#g" $SNAP/verif/harness/ivk/Cargo.toml $SNAP/verif/harness_lichess/Cargo.toml
sed -i "s#cd /repo #cd $SNAP/repo #" $SNAP/verif/check
sed -i "s#cd /verif#cd $SNAP/verif#g" $SNAP/verif/run_all.sh 2>/dev/null
( cd $SNAP/verif && CHECK_TIMEOUT=${CHECK_TIMEOUT:-7200} ./run_all.sh $tier ) > /verif/target/isolated_$tier$tag.log 2>&1
echo "DONE $(date -u +%FT%TZ)" >> /verif/target/isolated_$tier$tag.log
git -C /repo worktree remove --force $SNAP/repo; rm -rf $SNAP
