//! C19 — Lichess bot-stream payloads decode to the data they carry.
//! Documents are generated from a field-level description of the documented API shapes
//! (field names as the API spells them, independent of the crate's serde attributes).

#[allow(dead_code)]
#[path = "../../harness/ivk/src/common.rs"]
mod common;

use common::*;
use inkayaku_board::Bitboard;
use inkayaku_lichess_api::api::bot_event_response::BotEvent;
use inkayaku_lichess_api::api::bot_game_state_response::BotGameState;
use inkayaku_uci::UciMove;
use refchess::Pos;
use serde_json::{json, Map, Value};
use std::str::FromStr;
use std::sync::atomic::{AtomicU64, Ordering};
use std::time::Instant;

// ---------------------------------------------------------------------------------------
// JSON writer with a choice of string escaping (serde_json's writer never produces \uXXXX for
// printable characters, the wire may)

fn write_json(v: &Value, escape_non_ascii: bool, out: &mut String) {
    match v {
        Value::Null => out.push_str("null"),
        Value::Bool(b) => out.push_str(if *b { "true" } else { "false" }),
        Value::Number(n) => out.push_str(&n.to_string()),
        Value::String(s) => {
            out.push('"');
            for c in s.chars() {
                match c {
                    '"' => out.push_str("\\\""),
                    '\\' => out.push_str("\\\\"),
                    '\n' => out.push_str("\\n"),
                    '\t' => out.push_str("\\t"),
                    c if (c as u32) < 0x20 => out.push_str(&format!("\\u{:04x}", c as u32)),
                    c if escape_non_ascii && !c.is_ascii() => {
                        let mut buf = [0u16; 2];
                        for u in c.encode_utf16(&mut buf) {
                            out.push_str(&format!("\\u{:04x}", u));
                        }
                    }
                    c => out.push(c),
                }
            }
            out.push('"');
        }
        Value::Array(a) => {
            out.push('[');
            for (i, x) in a.iter().enumerate() {
                if i > 0 {
                    out.push(',');
                }
                write_json(x, escape_non_ascii, out);
            }
            out.push(']');
        }
        Value::Object(m) => {
            out.push('{');
            for (i, (k, x)) in m.iter().enumerate() {
                if i > 0 {
                    out.push(',');
                }
                write_json(&Value::String(k.clone()), escape_non_ascii, out);
                out.push(':');
                write_json(x, escape_non_ascii, out);
            }
            out.push('}');
        }
    }
}

fn to_text(v: &Value, escape_non_ascii: bool) -> String {
    let mut s = String::new();
    write_json(v, escape_non_ascii, &mut s);
    s
}

// ---------------------------------------------------------------------------------------
// comparison of the decoded value (re-serialised) with the source document, on the source's keys

/// keys the documented API transmits but the crate's model deliberately does not carry
const NOT_MODELLED: &[&str] = &["isMyTurn", "type"];

fn compare(path: &str, src: &Value, got: &Value, bad: &mut Vec<String>) {
    match (src, got) {
        (Value::Object(s), Value::Object(g)) => {
            for (k, sv) in s {
                if path != "" && NOT_MODELLED.contains(&k.as_str()) {
                    continue;
                }
                if path == "" && k == "type" {
                    if g.get("type") != Some(sv) {
                        bad.push(format!("{}/type: sent {} decoded {:?}", path, sv, g.get("type")));
                    }
                    continue;
                }
                if path.ends_with("/game") && k == "id" {
                    continue; // not modelled
                }
                let p = format!("{}/{}", path, k);
                match g.get(k) {
                    None | Some(Value::Null) => {
                        if !sv.is_null() {
                            bad.push(format!("{}: sent {} but the decoded value does not carry it", p, short_json(sv)));
                        }
                    }
                    Some(gv) => compare(&p, sv, gv, bad),
                }
            }
        }
        (Value::String(s), Value::Array(a)) if path.ends_with("/moves") => {
            let toks: Vec<&str> = if s.trim().is_empty() { vec![] } else { s.split(' ').collect() };
            let got: Vec<&str> = a.iter().map(|x| x.as_str().unwrap_or("?")).collect();
            if toks != got {
                bad.push(format!("{}: move list differs: sent {} tokens, decoded {}", path, toks.len(), got.len()));
            }
        }
        (s, g) => {
            if s != g {
                bad.push(format!("{}: sent {} decoded {}", path, short_json(s), short_json(g)));
            }
        }
    }
}

fn short_json(v: &Value) -> String {
    let s = v.to_string();
    s.chars().take(60).collect()
}

// ---------------------------------------------------------------------------------------
// field-level description of the shapes

const STATUS: [&str; 13] = ["created", "started", "aborted", "mate", "resign", "stalemate", "timeout", "draw", "outoftime", "cheat", "noStart", "unknownFinish", "variantEnd"];
const VARIANT: [&str; 10] = ["standard", "crazyhouse", "chess960", "fromPosition", "kingOfTheHill", "threeCheck", "antichess", "atomic", "horde", "racingKings"];
const SPEED: [&str; 6] = ["ultraBullet", "bullet", "blitz", "rapid", "classical", "correspondence"];
const PERF: [&str; 15] = ["ultraBullet", "bullet", "blitz", "rapid", "classical", "correspondence", "standard", "chess960", "kingOfTheHill", "antichess", "atomic", "threeCheck", "racingKings", "crazyhouse", "puzzle"];
const SOURCE: [&str; 12] = ["lobby", "friend", "ai", "api", "arena", "position", "import", "importlive", "simul", "relay", "pool", "swiss"];
const CH_STATUS: [&str; 5] = ["created", "offline", "canceled", "declined", "accepted"];
/// decline-reason keys whose spelling does not depend on a casing convention
const DECLINE_SAFE: [&str; 6] = ["generic", "later", "rated", "casual", "standard", "variant"];
const STRINGS: [&str; 7] = ["plain", "", "with \"quotes\"", "back\\slash", "two\nlines", "café ☕", "emoji 😀 end"];
const NUMS: [u64; 3] = [0, 1, 4294967295];

fn obj(pairs: Vec<(&str, Value)>) -> Value {
    let mut m = Map::new();
    for (k, v) in pairs {
        m.insert(k.to_string(), v);
    }
    Value::Object(m)
}

/// base object + every subset of the optional fields (each optional field also once as null)
fn with_optional_subsets(base: &Value, optional: &[(&str, Value)]) -> Vec<Value> {
    let n = optional.len();
    let mut out = Vec::new();
    for mask in 0..(1u32 << n) {
        let mut m = base.as_object().unwrap().clone();
        for (i, (k, v)) in optional.iter().enumerate() {
            if mask & (1 << i) != 0 {
                m.insert(k.to_string(), v.clone());
            }
        }
        out.push(Value::Object(m));
    }
    for (k, _) in optional {
        let mut m = base.as_object().unwrap().clone();
        m.insert(k.to_string(), Value::Null);
        out.push(Value::Object(m));
    }
    out
}

fn state_base(moves: &str) -> Value {
    obj(vec![("type", json!("gameState")), ("moves", json!(moves)), ("wtime", json!(7598040)), ("btime", json!(8395220)), ("winc", json!(10000)), ("binc", json!(10000)), ("status", json!("started"))])
}

fn state_optionals() -> Vec<(&'static str, Value)> {
    vec![("wdraw", json!(true)), ("bdraw", json!(false)), ("wtakeback", json!(false)), ("btakeback", json!(true)), ("winner", json!("white")), ("rematch", json!("abcd1234"))]
}

fn player(id: &str) -> Value {
    obj(vec![("id", json!(id))])
}

fn player_optionals() -> Vec<(&'static str, Value)> {
    vec![("aiLevel", json!(3)), ("name", json!("Some Name")), ("title", json!("IM")), ("rating", json!(2500)), ("provisional", json!(true))]
}

fn game_full_base(state: Value) -> Value {
    obj(vec![
        ("type", json!("gameFull")),
        ("id", json!("5IrD6Gzz")),
        ("variant", json!({"key": "standard", "name": "Standard", "short": "Std"})),
        ("speed", json!("classical")),
        ("perf", json!({"name": "Classical"})),
        ("rated", json!(true)),
        ("createdAt", json!(1523825103562u64)),
        ("white", player("lovlas")),
        ("black", player("leela")),
        ("initialFen", json!("startpos")),
        ("state", state),
    ])
}

fn game_full_optionals() -> Vec<(&'static str, Value)> {
    vec![("clock", json!({"initial": 1200000, "increment": 10000})), ("daysPerTurn", json!(3)), ("tournamentId", json!("winter23"))]
}

fn game_info_base() -> Value {
    obj(vec![
        ("fullId", json!("rCRw1AuOvonq")),
        ("gameId", json!("rCRw1AuO")),
        ("id", json!("rCRw1AuO")),
        ("fen", json!("r1bqkbnr/pppp1ppp/2n5/4p3/4P3/5N2/PPPP1PPP/RNBQKB1R w KQkq - 2 3")),
        ("color", json!("black")),
        ("lastMove", json!("b8c6")),
        ("source", json!("friend")),
        ("status", json!({"id": 20, "name": "started"})),
        ("variant", json!({"key": "standard", "name": "Standard"})),
        ("speed", json!("correspondence")),
        ("perf", json!("correspondence")),
        ("rated", json!(true)),
        ("hasMoved", json!(true)),
        ("isMyTurn", json!(false)),
        ("opponent", json!({"id": "philippe", "username": "Philippe"})),
    ])
}

fn game_info_optionals() -> Vec<(&'static str, Value)> {
    vec![
        ("secondsLeft", json!(1209600)),
        ("tournamentId", json!("t1")),
        ("swissId", json!("s1")),
        ("orientation", json!("white")),
        ("winner", json!("black")),
        ("ratingDiff", json!(-12)),
        ("compat", json!({"bot": false, "board": true})),
    ]
}

fn challenger(id: &str) -> Value {
    obj(vec![("id", json!(id)), ("name", json!("Lovlas")), ("rating", json!(2506))])
}

fn challenger_optionals() -> Vec<(&'static str, Value)> {
    vec![("title", json!("IM")), ("provisional", json!(true)), ("patron", json!(true)), ("online", json!(true)), ("lag", json!(24))]
}

fn challenge_base() -> Value {
    obj(vec![
        ("id", json!("7pGLxJ4F")),
        ("url", json!("https://lichess.org/VU0nyvsW")),
        ("status", json!("created")),
        ("variant", json!({"key": "standard", "name": "Standard", "short": "Std"})),
        ("rated", json!(true)),
        ("speed", json!("rapid")),
        ("timeControl", json!({"type": "clock", "limit": 600, "increment": 0, "show": "10+0"})),
        ("color", json!("random")),
        ("finalColor", json!("black")),
        ("perf", json!({"icon": "#", "name": "Rapid"})),
    ])
}

fn challenge_optionals() -> Vec<(&'static str, Value)> {
    vec![("challenger", challenger("lovlas")), ("destUser", challenger("thibot")), ("rematchOf", json!("abcd1234")), ("direction", json!("in")), ("initialFen", json!("rnbqkbnr/pppppppp/8/8/8/8/PPPPPPPP/RNBQKBNR w KQkq - 0 1")), ("declineReason", json!("later"))]
}

fn set_path(v: &Value, path: &[&str], new: Value) -> Value {
    let mut v = v.clone();
    {
        let mut cur = &mut v;
        for (i, k) in path.iter().enumerate() {
            if i + 1 == path.len() {
                cur.as_object_mut().unwrap().insert(k.to_string(), new);
                break;
            }
            cur = cur.get_mut(*k).unwrap();
        }
    }
    v
}

#[derive(Clone, Copy, PartialEq)]
enum Which {
    GameState,
    Event,
}

struct Docs {
    v: Vec<(Which, Value, &'static str)>,
}

impl Docs {
    fn gs(&mut self, d: Value, fam: &'static str) {
        self.v.push((Which::GameState, d, fam));
    }
    fn ev(&mut self, d: Value, fam: &'static str) {
        self.v.push((Which::Event, d, fam));
    }
}

fn moves_lists(tier: Tier) -> Vec<(String, String)> {
    // every legal game of <= 3 plies from the start position (9 323 lists) + long games
    let mut out: Vec<(String, String)> = Vec::new();
    let start = Pos::startpos();
    out.push((String::new(), start.to_fen()));
    let depth = if tier == Tier::Quick { 2 } else { 3 };
    fn rec(p: &Pos, prefix: &mut Vec<String>, depth: usize, out: &mut Vec<(String, String)>) {
        if depth == 0 {
            return;
        }
        for m in p.legal() {
            let q = p.make(&m);
            prefix.push(m.uci());
            out.push((prefix.join(" "), q.to_fen()));
            rec(&q, prefix, depth - 1, out);
            prefix.pop();
        }
    }
    rec(&start, &mut Vec::new(), depth, &mut out);
    // long games: castling both wings, all four promotion letters, a 300-ply shuffle
    let long: [&[&str]; 4] = [
        &["e2e4", "e7e5", "g1f3", "b8c6", "f1c4", "f8c5", "e1g1", "g8f6", "d2d3", "d7d6", "c1g5", "c8g4", "b1c3", "d8d7", "d1d2", "e8c8"],
        &["h2h4", "g7g5", "h4g5", "h7h6", "g5h6", "f8g7", "h6g7", "g8f6", "g7h8q", "f6g8", "a2a4", "b7b5", "a4b5", "a7a6", "b5a6", "c8b7", "a6b7", "b8c6", "b7a8r"],
        &["b2b4", "a7a5", "b4a5", "b7b6", "a5b6", "c8a6", "b6c7", "d8c8", "c7b8n", "h7h5", "g2g4", "h5g4", "h2h3", "g4h3", "f1g2", "h3g2", "g1f3", "g2h1b"],
        &["d2d4", "d7d5", "c1f4", "c8f5", "b1c3", "b8c6", "d1d2", "d8d7", "e1c1", "e8c8"],
    ];
    for g in long.iter() {
        let mut p = start.clone();
        for u in g.iter() {
            let m = p.find_legal_uci(u).unwrap_or_else(|| panic!("long game move {} illegal in {}", u, p.to_fen()));
            p = p.make(&m);
        }
        out.push((g.join(" "), p.to_fen()));
    }
    // games of every magnitude of length ("0..hundreds of moves" and beyond): knight shuffles with a
    // pawn step every 90 plies, cut at 0..=64 plies and at 2^k-1, 2^k, 2^k+1 plies up to 2 049
    // (4 097 in thorough runs). The half-move clock stays far below 4096, the domain of the board's
    // undo field, so the consumer replay is meaningful for every length.
    let mut lens: Vec<usize> = (0..=64).collect();
    for k in 7..=(if tier == Tier::Quick { 11 } else { 12 }) {
        lens.extend([(1usize << k) - 1, 1 << k, (1 << k) + 1]);
    }
    lens.push(300);
    let longest = *lens.iter().max().unwrap();
    let mut game: Vec<String> = Vec::new();
    let mut fens: Vec<String> = vec![start.to_fen()];
    {
        let mut p = start.clone();
        let cycle = ["g1f3", "g8f6", "f3g1", "f6g8", "b1c3", "b8c6", "c3b1", "c6b8"];
        let pawn_steps = ["a2a3", "a7a6", "h2h3", "h7h6", "a3a4", "a6a5", "h3h4", "h6h5", "b2b3", "b7b6", "g2g3", "g7g6", "d2d3", "d7d6", "e2e3", "e7e6", "b3b4", "b6b5", "g3g4", "g6g5", "d3d4", "d6d5", "e3e4", "e6e5"];
        let (mut ci, mut pi) = (0usize, 0usize);
        while game.len() < longest {
            // two pawn steps (one per side) after every 88 shuffle plies, while any are left
            let u = if game.len() % 90 >= 88 && pi < pawn_steps.len() {
                pi += 1;
                pawn_steps[pi - 1]
            } else {
                ci += 1;
                cycle[(ci - 1) % cycle.len()]
            };
            let m = p.find_legal_uci(u).unwrap_or_else(|| panic!("generated game move {} illegal in {}", u, p.to_fen()));
            p = p.make(&m);
            game.push(u.to_string());
            fens.push(p.to_fen());
        }
    }
    for n in lens {
        out.push((game[..n].join(" "), fens[n].clone()));
    }
    out
}

fn build_docs(tier: Tier) -> Docs {
    let mut d = Docs { v: Vec::new() };
    // ---- gameState / gameFull: optional subsets, each struct separately
    for s in with_optional_subsets(&state_base("e2e4 c7c5"), &state_optionals()) {
        let mut gs = s.clone();
        gs.as_object_mut().unwrap().insert("type".into(), json!("gameState"));
        d.gs(gs, "gameState optional subsets");
        d.gs(game_full_base(s), "gameFull/state optional subsets");
    }
    for g in with_optional_subsets(&game_full_base(state_base("e2e4")), &game_full_optionals()) {
        d.gs(g, "gameFull optional subsets");
    }
    for p in with_optional_subsets(&player("lovlas"), &player_optionals()) {
        d.gs(set_path(&game_full_base(state_base("")), &["white"], p.clone()), "player optional subsets");
        d.gs(set_path(&game_full_base(state_base("")), &["black"], p), "player optional subsets");
    }
    // moves absent
    {
        let mut s = state_base("");
        s.as_object_mut().unwrap().remove("moves");
        d.gs(s.clone(), "moves absent");
        d.gs(game_full_base(s), "moves absent");
    }
    // enumerated keys
    for k in STATUS {
        d.gs(set_path(&state_base("e2e4"), &["status"], json!(k)), "status keys");
        d.gs(game_full_base(set_path(&state_base("e2e4"), &["status"], json!(k))), "status keys");
        d.ev(obj(vec![("type", json!("gameFinish")), ("game", set_path(&game_info_base(), &["status"], json!({"id": 30, "name": k})))]), "status keys");
    }
    for k in VARIANT {
        d.gs(set_path(&game_full_base(state_base("")), &["variant", "key"], json!(k)), "variant keys");
        d.ev(obj(vec![("type", json!("gameStart")), ("game", set_path(&game_info_base(), &["variant", "key"], json!(k)))]), "variant keys");
        d.ev(obj(vec![("type", json!("challenge")), ("challenge", set_path(&challenge_base(), &["variant", "key"], json!(k)))]), "variant keys");
    }
    for k in SPEED {
        d.gs(set_path(&game_full_base(state_base("")), &["speed"], json!(k)), "speed keys");
        d.ev(obj(vec![("type", json!("gameStart")), ("game", set_path(&game_info_base(), &["speed"], json!(k)))]), "speed keys");
        d.ev(obj(vec![("type", json!("challenge")), ("challenge", set_path(&challenge_base(), &["speed"], json!(k)))]), "speed keys");
    }
    for k in PERF {
        d.ev(obj(vec![("type", json!("gameStart")), ("game", set_path(&game_info_base(), &["perf"], json!(k)))]), "perf keys");
    }
    for k in SOURCE {
        d.ev(obj(vec![("type", json!("gameStart")), ("game", set_path(&game_info_base(), &["source"], json!(k)))]), "source keys");
    }
    for k in CH_STATUS {
        for t in ["challenge", "challengeCanceled", "challengeDeclined"] {
            d.ev(obj(vec![("type", json!(t)), ("challenge", set_path(&challenge_base(), &["status"], json!(k)))]), "challenge status keys");
        }
    }
    for k in DECLINE_SAFE {
        d.ev(obj(vec![("type", json!("challengeDeclined")), ("challenge", set_path(&challenge_base(), &["declineReason"], json!(k)))]), "decline reason keys (casing-independent ones)");
    }
    for c in ["white", "black"] {
        d.gs(set_path(&state_base("e2e4"), &["winner"], json!(c)), "colour keys");
        d.ev(obj(vec![("type", json!("gameStart")), ("game", set_path(&game_info_base(), &["color"], json!(c)))]), "colour keys");
        d.ev(obj(vec![("type", json!("challenge")), ("challenge", set_path(&challenge_base(), &["finalColor"], json!(c)))]), "colour keys");
    }
    for c in ["white", "black", "random"] {
        d.ev(obj(vec![("type", json!("challenge")), ("challenge", set_path(&challenge_base(), &["color"], json!(c)))]), "colour keys");
    }
    for r in ["player", "spectator"] {
        d.gs(json!({"type": "chatLine", "room": r, "username": "thibault", "text": "Good luck, have fun"}), "rooms");
    }
    for tc in [json!({"type": "clock", "limit": 600, "increment": 5, "show": "10+5"}), json!({"type": "correspondence", "daysPerTurn": 3}), json!({"type": "unlimited"})] {
        d.ev(obj(vec![("type", json!("challenge")), ("challenge", set_path(&challenge_base(), &["timeControl"], tc))]), "time control types");
    }
    for dir in ["in", "out"] {
        d.ev(obj(vec![("type", json!("challenge")), ("challenge", set_path(&challenge_base(), &["direction"], json!(dir)))]), "direction keys");
    }
    // opponentGone
    d.gs(json!({"type": "opponentGone", "gone": true}), "opponentGone");
    d.gs(json!({"type": "opponentGone", "gone": false}), "opponentGone");
    for n in [0u64, 8, 4294967295] {
        d.gs(json!({"type": "opponentGone", "gone": true, "claimWinInSeconds": n}), "opponentGone");
    }
    d.gs(json!({"type": "opponentGone", "gone": true, "claimWinInSeconds": null}), "opponentGone");
    // events: optional subsets per struct
    for g in with_optional_subsets(&game_info_base(), &game_info_optionals()) {
        d.ev(obj(vec![("type", json!("gameStart")), ("game", g.clone())]), "gameStart/gameFinish optional subsets");
        d.ev(obj(vec![("type", json!("gameFinish")), ("game", g)]), "gameStart/gameFinish optional subsets");
    }
    for o in with_optional_subsets(&json!({"id": "philippe", "username": "Philippe"}), &[("rating", json!(1790)), ("ratingDiff", json!(5)), ("ai", json!(4))]) {
        d.ev(obj(vec![("type", json!("gameStart")), ("game", set_path(&game_info_base(), &["opponent"], o))]), "opponent optional subsets");
    }
    for c in with_optional_subsets(&challenge_base(), &challenge_optionals()) {
        for t in ["challenge", "challengeCanceled", "challengeDeclined"] {
            d.ev(obj(vec![("type", json!(t)), ("challenge", c.clone())]), "challenge optional subsets");
        }
    }
    for ch in with_optional_subsets(&challenger("lovlas"), &challenger_optionals()) {
        d.ev(obj(vec![("type", json!("challenge")), ("challenge", set_path(&challenge_base(), &["challenger"], ch.clone()))]), "challenger optional subsets");
        d.ev(obj(vec![("type", json!("challenge")), ("challenge", set_path(&challenge_base(), &["destUser"], ch))]), "challenger optional subsets");
    }
    for compat in [json!({"bot": true, "board": true}), json!({"bot": false, "board": false}), Value::Null] {
        let mut e = obj(vec![("type", json!("challenge")), ("challenge", challenge_base())]);
        e.as_object_mut().unwrap().insert("compat".into(), compat);
        d.ev(e, "compat");
    }
    // numbers
    for n in NUMS {
        for f in ["wtime", "btime", "winc", "binc"] {
            d.gs(set_path(&state_base("e2e4"), &[f], json!(n)), "numeric fields");
            d.gs(game_full_base(set_path(&state_base("e2e4"), &[f], json!(n))), "numeric fields");
        }
        d.gs(set_path(&game_full_base(state_base("")), &["clock"], json!({"initial": n, "increment": n})), "numeric fields");
        d.gs(set_path(&game_full_base(state_base("")), &["white", "rating"], json!(n)), "numeric fields");
        d.ev(obj(vec![("type", json!("gameStart")), ("game", set_path(&game_info_base(), &["secondsLeft"], json!(n)))]), "numeric fields");
        d.ev(obj(vec![("type", json!("challenge")), ("challenge", set_path(&challenge_base(), &["timeControl"], json!({"type": "clock", "limit": n, "increment": n, "show": "x"})))]), "numeric fields");
    }
    d.gs(set_path(&game_full_base(state_base("")), &["createdAt"], json!(18446744073709551615u64)), "numeric fields");
    d.ev(obj(vec![("type", json!("gameFinish")), ("game", set_path(&game_info_base(), &["ratingDiff"], json!(-2147483648i64)))]), "numeric fields");
    // strings over the escape alphabet, in every string field
    for s in STRINGS {
        d.gs(json!({"type": "chatLine", "room": "player", "username": s, "text": s}), "string escapes");
        for path in [vec!["id"], vec!["initialFen"], vec!["white", "id"], vec!["white", "name"], vec!["black", "title"], vec!["perf", "name"], vec!["variant", "name"], vec!["variant", "short"], vec!["tournamentId"], vec!["state", "rematch"]] {
            d.gs(set_path(&game_full_base(state_base("e2e4 e7e5")), &path, json!(s)), "string escapes");
        }
        d.gs(set_path(&state_base("e2e4 e7e5"), &["rematch"], json!(s)), "string escapes");
        for path in [vec!["fullId"], vec!["gameId"], vec!["fen"], vec!["lastMove"], vec!["opponent", "username"], vec!["variant", "name"], vec!["tournamentId"], vec!["swissId"]] {
            d.ev(obj(vec![("type", json!("gameStart")), ("game", set_path(&game_info_base(), &path, json!(s)))]), "string escapes");
        }
        for path in [vec!["id"], vec!["url"], vec!["perf", "icon"], vec!["perf", "name"], vec!["rematchOf"], vec!["initialFen"], vec!["timeControl", "show"]] {
            d.ev(obj(vec![("type", json!("challenge")), ("challenge", set_path(&challenge_base(), &path, json!(s)))]), "string escapes");
        }
    }
    let _ = tier;
    d
}

fn judge(rep: &Reporter, which: Which, doc: &Value, fam: &str, escape: bool, n: &AtomicU64) {
    let text = to_text(doc, escape);
    n.fetch_add(1, Ordering::Relaxed);
    let ty = doc["type"].as_str().unwrap_or("?").to_string();
    let case = |extra: Value| json!({"kind": "lichess_doc", "stream": if which == Which::GameState { "game" } else { "event" }, "document": text, "family": fam, "detail": extra});
    let decoded: Result<Result<Value, String>, String> = guarded(|| match which {
        Which::GameState => serde_json::from_str::<BotGameState>(&text).map_err(|e| e.to_string()).map(|v| serde_json::to_value(&v).unwrap_or(Value::Null)),
        Which::Event => serde_json::from_str::<BotEvent>(&text).map_err(|e| e.to_string()).map(|v| serde_json::to_value(&v).unwrap_or(Value::Null)),
    });
    match decoded {
        Err(m) => rep.report(format!("panic:{}", m.chars().filter(|c| !c.is_ascii_digit()).take(50).collect::<String>()), case(json!({"panic": m}))),
        Ok(Err(e)) => {
            let class: String = e.split(" at line").next().unwrap_or("").chars().filter(|c| !c.is_ascii_digit()).take(70).collect();
            rep.report(format!("decode_error:{}:{}", ty, class), case(json!({"error": e})));
        }
        Ok(Ok(got)) => {
            let mut bad = Vec::new();
            compare("", doc, &got, &mut bad);
            if !bad.is_empty() {
                let first = bad[0].split(':').next().unwrap_or("").to_string();
                rep.report(format!("value_lost_or_changed:{}:{}", ty, first), case(json!({"differences": bad, "decoded": got})));
            }
        }
    }
}

fn judge_moves(rep: &Reporter, moves: &str, final_fen: &str, n: &AtomicU64) {
    for (wrap, ty) in [(false, "gameState"), (true, "gameFull")] {
        let doc = if wrap { game_full_base(state_base(moves)) } else { state_base(moves) };
        let text = to_text(&doc, false);
        n.fetch_add(1, Ordering::Relaxed);
        let case = |extra: Value| json!({"kind": "lichess_moves", "moves": moves, "shape": ty, "detail": extra});
        let r = guarded(|| serde_json::from_str::<BotGameState>(&text).map_err(|e| e.to_string()));
        let list: Vec<String> = match r {
            Err(m) => {
                rep.report("panic:moves".to_string(), case(json!({"panic": m})));
                continue;
            }
            Ok(Err(e)) => {
                rep.report(format!("decode_error:{}:moves", ty), case(json!({"error": e})));
                continue;
            }
            Ok(Ok(BotGameState::GameState { state })) => state.moves,
            Ok(Ok(BotGameState::GameFull { state, .. })) => state.moves,
            Ok(Ok(_)) => {
                rep.report("decoded_as_other_variant".to_string(), case(json!({})));
                continue;
            }
        };
        let want: Vec<&str> = if moves.is_empty() { vec![] } else { moves.split(' ').collect() };
        if list.iter().map(|s| s.as_str()).collect::<Vec<_>>() != want {
            rep.report("moves_list_differs".to_string(), case(json!({"decoded": list})));
            continue;
        }
        // consumer path: every element parses as a UCI move and replays to the generator's position
        let r = guarded(|| {
            let mut b = Bitboard::default();
            for m in &list {
                let um = UciMove::from_str(m).map_err(|e| format!("{:?}", e))?;
                b.make_uci(&um.to_string()).map_err(|e| format!("{:?}", e))?;
            }
            Ok::<String, String>(snap(&b).to_pos().to_fen())
        });
        match r {
            Ok(Ok(fen)) => {
                if fen != final_fen {
                    rep.report("replayed_position_differs".to_string(), case(json!({"expected": final_fen, "actual": fen})));
                }
            }
            Ok(Err(e)) => rep.report("decoded_move_rejected_by_consumer".to_string(), case(json!({"error": e}))),
            Err(m) => rep.report("panic:consumer".to_string(), case(json!({"panic": m}))),
        }
    }
}

/// token identity: the decoded list must be exactly the transmitted tokens, whatever squares they
/// name (no token may be rewritten, merged, split or dropped); these lists are not games, so the
/// consumer replay is not applied
thread_local! {
    /// the move string decoded just before on this thread (recorded in the case so that a replay
    /// can re-create the history)
    static PREDECESSOR: std::cell::RefCell<Option<String>> = std::cell::RefCell::new(None);
}

fn judge_tokens(rep: &Reporter, tokens: &[String], n: &AtomicU64) {
    let moves = tokens.join(" ");
    let pred: Option<String> = PREDECESSOR.with(|p| p.borrow().clone());
    for (wrap, ty) in [(false, "gameState"), (true, "gameFull")] {
        let doc = if wrap { game_full_base(state_base(&moves)) } else { state_base(&moves) };
        let text = to_text(&doc, false);
        n.fetch_add(1, Ordering::Relaxed);
        let case = |extra: Value| json!({"kind": "lichess_tokens", "moves": moves, "shape": ty, "decoded_just_before_on_this_thread": pred, "detail": extra});
        match guarded(|| serde_json::from_str::<BotGameState>(&text).map_err(|e| e.to_string())) {
            Err(m) => rep.report("panic:moves".to_string(), case(json!({"panic": m}))),
            Ok(Err(e)) => rep.report(format!("decode_error:{}:moves", ty), case(json!({"error": e}))),
            Ok(Ok(BotGameState::GameState { state })) | Ok(Ok(BotGameState::GameFull { state, .. })) => {
                if state.moves != tokens {
                    let first = state.moves.iter().zip(tokens.iter()).position(|(a, b)| a != b);
                    rep.report("move_token_changed_by_decoding".to_string(), case(json!({"decoded": state.moves, "first_difference": first})));
                } else {
                    for t in &state.moves {
                        if UciMove::from_str(t).is_err() {
                            rep.report("decoded_move_rejected_by_uci_parser".to_string(), case(json!({"token": t})));
                        }
                    }
                }
            }
            Ok(Ok(_)) => rep.report("decoded_as_other_variant".to_string(), case(json!({}))),
        }
    }
}

fn main() {
    let args: Vec<String> = std::env::args().collect();
    silence_panics();
    let started = Instant::now();
    let rep = Reporter::new("C19");
    if args.len() >= 3 && args[1] == "--replay" {
        std::env::set_var("IVK_NO_EVIDENCE", "1");
        std::env::set_var("IVK_REPLAY_MODE", "1");
        let text = std::fs::read_to_string(&args[2]).unwrap_or_default();
        let doc: Value = serde_json::from_str(&text).unwrap_or(Value::Null);
        let case = &doc["case"];
        let n = AtomicU64::new(0);
        match case["kind"].as_str().unwrap_or("") {
            "lichess_doc" => {
                // the document text is replayed byte for byte
                let which = if case["stream"] == "game" { Which::GameState } else { Which::Event };
                let src: Value = serde_json::from_str(case["document"].as_str().unwrap_or("null")).unwrap_or(Value::Null);
                let escaped = case["document"].as_str().unwrap_or("").contains("\\u");
                judge(&rep, which, &src, "replay", escaped, &n);
            }
            "lichess_tokens" => {
                if let Some(pred) = case["decoded_just_before_on_this_thread"].as_str() {
                    let quiet = Reporter::new("C19-prefix");
                    let ptoks: Vec<String> = pred.split(' ').map(|s| s.to_string()).collect();
                    judge_tokens(&quiet, &ptoks, &n);
                    PREDECESSOR.with(|p| *p.borrow_mut() = Some(pred.to_string()));
                }
                let toks: Vec<String> = case["moves"].as_str().unwrap_or("").split(' ').map(|s| s.to_string()).collect();
                judge_tokens(&rep, &toks, &n);
            }
            "lichess_moves" => {
                let moves = case["moves"].as_str().unwrap_or("");
                let mut p = Pos::startpos();
                for u in moves.split(' ').filter(|s| !s.is_empty()) {
                    if let Some(m) = p.find_legal_uci(u) {
                        p = p.make(&m);
                    }
                }
                judge_moves(&rep, moves, &p.to_fen(), &n);
            }
            _ => std::process::exit(2),
        }
        println!("replay: {} violating case(s) reproduced", rep.violation_count());
        let mut cov = Coverage::new();
        cov.states = 1;
        std::process::exit(finish(&rep, Tier::Quick, cov, started));
    }
    let tier = if args.get(1).map(|s| s.as_str()) == Some("thorough") { Tier::Thorough } else { Tier::Quick };
    let docs = build_docs(tier);
    let n_docs = AtomicU64::new(0);
    let idx: Vec<usize> = (0..docs.v.len()).collect();
    par_map(&idx, |&i| {
        let (w, d, fam) = &docs.v[i];
        judge(&rep, *w, d, fam, false, &n_docs);
        judge(&rep, *w, d, fam, true, &n_docs);
    });
    let lists = moves_lists(tier);
    let n_moves = AtomicU64::new(0);
    par_map(&lists, |(m, fen)| judge_moves(&rep, m, fen, &n_moves));

    // every move token (64 x 64 x {-,q,r,b,n}) at the start, in the middle and at the end of a list
    let mut token_lists: Vec<Vec<String>> = Vec::new();
    for from in 0..64u8 {
        for to in 0..64u8 {
            if from == to {
                continue;
            }
            for suf in ["", "q", "r", "b", "n"] {
                let t = format!("{}{}{}", refchess::sq_name(from), refchess::sq_name(to), suf);
                if suf.is_empty() {
                    token_lists.push(vec![t.clone()]);
                    token_lists.push(vec![t.clone(), "e7e5".into()]);
                    token_lists.push(vec!["e2e4".into(), t.clone()]);
                }
                token_lists.push(vec!["e2e4".into(), t, "g8f6".into()]);
            }
        }
    }
    // every pattern of 4- and 5-character tokens up to length 11 (the decoder must not depend on
    // token lengths or on how many promotions a list contains)
    let max_pat = if tier == Tier::Quick { 11 } else { 14 };
    for len in 1..=max_pat {
        for mask in 0u32..(1 << len) {
            let l: Vec<String> = (0..len).map(|i| if mask & (1 << i) != 0 { format!("{}7{}8{}", (b'a' + (i % 8) as u8) as char, (b'a' + ((i + 1) % 8) as u8) as char, ["q", "r", "b", "n"][i % 4]) } else { format!("{}2{}4", (b'a' + (i % 8) as u8) as char, (b'a' + (i % 8) as u8) as char) }).collect();
            token_lists.push(l);
        }
    }
    // token lists of every magnitude of length (identity only; these are not games)
    for k in 4..=(if tier == Tier::Quick { 15 } else { 17 }) {
        for n in [(1usize << k) - 1, 1 << k, (1 << k) + 1] {
            let l: Vec<String> = (0..n).map(|i| if i % 7 == 3 { format!("{}7{}8{}", (b'a' + (i % 8) as u8) as char, (b'a' + ((i + 1) % 8) as u8) as char, ["q", "r", "b", "n"][i % 4]) } else { format!("{}2{}4", (b'a' + (i % 8) as u8) as char, (b'a' + (i % 5) as u8) as char) }).collect();
            token_lists.push(l);
        }
    }
    let n_tokens = AtomicU64::new(0);
    par_map(&token_lists, |l| judge_tokens(&rep, l, &n_tokens));

    // decoding is a function of the document alone: every ordered pair of textual neighbours — a
    // list, the same text cut or continued inside a token, continued by a promotion letter, by a
    // further token — is decoded back to back on one thread, and the second result is judged
    let n_pairs = AtomicU64::new(0);
    {
        let mut groups: Vec<Vec<Vec<String>>> = Vec::new();
        for n in [1usize, 3, 12, 51, 52, 53, 60, 64, 100, 128, 300, 1000] {
            for last in ["a7a8", "h2h1", "e2e4"] {
                let mut base: Vec<String> = (0..n - 1).map(|i| if i % 9 == 4 { format!("{}7{}8n", (b'a' + (i % 8) as u8) as char, (b'a' + ((i + 1) % 8) as u8) as char) } else { format!("{}2{}4", (b'a' + (i % 8) as u8) as char, (b'a' + (i % 3) as u8) as char) }).collect();
                base.push(last.to_string());
                let with = |f: &dyn Fn(&mut Vec<String>)| {
                    let mut v = base.clone();
                    f(&mut v);
                    v
                };
                let variants = vec![
                    base.clone(),
                    with(&|v| { let l = v.len() - 1; v[l].push('q'); }),
                    with(&|v| { let l = v.len() - 1; v[l].push('q'); v.push("g8f6".into()); }),
                    with(&|v| v.push("g8f6".into())),
                    with(&|v| { v.push("g8f6".into()); v.push("b1c3".into()); }),
                    with(&|v| { let l = v.len() - 1; v[l].pop(); }),
                    with(&|v| { v.pop(); }),
                    with(&|v| { let l = v.len() - 1; v[l] = "a7b8".into(); }),
                ];
                groups.push(variants);
            }
        }
        par_map(&groups, |variants| {
            for a in variants.iter() {
                for b in variants.iter() {
                    // only lists of well-formed move tokens are judged (the cut-inside-a-token variant
                    // serves as a predecessor only)
                    if b.iter().any(|t| t.len() < 4 || t.len() > 5) {
                        continue;
                    }
                    // decode a (its own verdict was given in the sweeps above), then judge b
                    let quiet = Reporter::new("C19-prefix");
                    PREDECESSOR.with(|p| *p.borrow_mut() = None);
                    judge_tokens(&quiet, a, &AtomicU64::new(0));
                    PREDECESSOR.with(|p| *p.borrow_mut() = Some(a.join(" ")));
                    judge_tokens(&rep, b, &n_pairs);
                    PREDECESSOR.with(|p| *p.borrow_mut() = None);
                }
            }
        });
    }

    // informational probe (never a verdict): wire spellings this sandbox cannot confirm offline
    let mut probe = Vec::new();
    for (name, doc) in [
        ("declineReason camelCase key 'tooFast'", obj(vec![("type", json!("challengeDeclined")), ("challenge", set_path(&challenge_base(), &["declineReason"], json!("tooFast")))])),
        ("declineReason free text", obj(vec![("type", json!("challengeDeclined")), ("challenge", set_path(&challenge_base(), &["declineReason"], json!("I'm not accepting challenges at the moment.")))])),
        ("rules as array", obj(vec![("type", json!("challenge")), ("challenge", set_path(&challenge_base(), &["rules"], json!(["noAbort", "noRematch"])))])),
        ("rules as comma-separated string", obj(vec![("type", json!("challenge")), ("challenge", set_path(&challenge_base(), &["rules"], json!("noAbort,noRematch")))])),
    ] {
        let t = to_text(&doc, false);
        let r = guarded(|| serde_json::from_str::<BotEvent>(&t).map(|_| ()).map_err(|e| e.to_string()));
        probe.push(json!({"probe": name, "result": format!("{:?}", r)}));
    }

    let mut fam_counts: std::collections::BTreeMap<&str, u64> = std::collections::BTreeMap::new();
    for (_, _, f) in &docs.v {
        *fam_counts.entry(f).or_insert(0) += 1;
    }
    let mut cov = Coverage::new();
    cov.states = docs.v.len() as u64 + lists.len() as u64;
    cov.transitions = n_docs.load(Ordering::Relaxed) + n_moves.load(Ordering::Relaxed) + n_tokens.load(Ordering::Relaxed) + n_pairs.load(Ordering::Relaxed);
    cov.set("decodes_judged_right_after_a_textual_neighbour_on_the_same_thread", json!(n_pairs.load(Ordering::Relaxed)));
    cov.set("token_identity_lists", json!(token_lists.len()));
    cov.traces_validated = cov.transitions;
    cov.set("documents", json!(docs.v.len()));
    cov.set("documents_by_family", json!(fam_counts));
    cov.set("each_document_decoded_in_two_escapings", json!(true));
    cov.set("move_lists", json!(lists.len()));
    cov.set("informational_probes_not_judged", json!(probe));
    cov.samples = vec![json!({"document": to_text(&docs.v[3].1, false)}), json!({"document": to_text(&docs.v[docs.v.len() - 1].1, true)}), json!({"moves": lists[lists.len() - 2].0})];
    cov.assumptions = vec![
        "serde's derived code treats the fields of one struct independently: optional-field subsets are enumerated per struct, not as a cross product over structs".into(),
        "wire spellings that cannot be confirmed offline (decline reasons with several words, the shape of 'rules') are probed for information only".into(),
    ];
    std::process::exit(finish(&rep, tier, cov, started));
}
