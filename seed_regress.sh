#!/bin/bash
# re-runs every recorded seeded change against the quick check(s) named in its meta.json;
# output: one line per (seed, check): CAUGHT / MISSED / NOAPPLY   -> /verif/target/seed_regress.log
# optional: SEED_ONLY=<egrep pattern on the seed directory> restricts the run, log goes to seed_regress.<pid>.log
out=/verif/target/seed_regress.log; [ -n "$SEED_ONLY" ] && out=/verif/target/seed_regress.$$.log; : > $out
for meta in $(ls /verif/seeded/*/meta.json /verif/seeded/round*/*/meta.json 2>/dev/null); do
  dir=$(dirname $meta)
  if [ -n "$SEED_ONLY" ] && ! echo "$dir" | grep -Eq "$SEED_ONLY"; then continue; fi
  cmd=$(python3 -c "import json,sys; print(json.load(open('$meta')).get('how_to_rerun',''))")
  patch=$(echo "$cmd" | awk '{print $2}')
  checks=$(echo "$cmd" | cut -d' ' -f3-)
  [ -f "$dir/patch.rebased.diff" ] && patch="$dir/patch.rebased.diff"
  [ -f "$patch" ] || { echo "$dir NOPATCH" >> $out; continue; }
  exec 9>/tmp/repo_mutation.lock; flock 9
  if ! git -C /repo apply --check "$patch" 2>/dev/null; then
     # try with fuzz
     ( cd /repo && patch -p1 --fuzz=3 --dry-run < "$patch" >/dev/null 2>&1 ) || { echo "$dir NOAPPLY" >> $out; flock -u 9; continue; }
     ( cd /repo && patch -p1 --fuzz=3 < "$patch" >/dev/null 2>&1; find . -name "*.orig" -delete )
  else
     git -C /repo apply "$patch"
  fi
  first=$(echo $checks | awk '{print $1}')
  res=$(cd /verif && IVK_NO_EVIDENCE=1 IVK_REPLAY_MODE=1 ./check $first quick 2>&1 | grep -c "^VIOLATION")
  git -C /repo checkout -- . ; git -C /repo clean -fdq -- . 2>/dev/null
  flock -u 9
  if [ "$res" -gt 0 ]; then echo "$dir $first CAUGHT" >> $out; else echo "$dir $first MISSED" >> $out; fi
done
echo "DONE $(date -u +%FT%TZ)" >> $out; echo $out
