#!/bin/bash
# run every check of a tier in sequence; prints one summary line per check
tier="${1:-quick}"
cd "$(dirname "$0")"
# optional: CHECKS="C08 C13" restricts the run
for c in ${CHECKS:-C01 C02 C03 C04 C05 C06 C07 C08 C09 C10 C11 C12 C13 C14 C15 C16 C17 C18 C19}; do
  out=$(timeout ${CHECK_TIMEOUT:-7200} ./check $c $tier 2>&1); code=$?
  echo "$out" | grep -E "VIOLATION|KNOWN-FINDING|MACHINERY" | head -5
  echo "$out" | tail -1 | sed "s/$/ [exit $code]/"
done
