//! C07, C09, C16 — sessions, interruption points, clocks: deviation-bounded enumeration of the
//! search thread's environment on the real engine (DESIGN §2.5, §2.6).

#![cfg(inkayaku_verif)]
#![allow(dead_code)]

use crate::board_checks::short;
use crate::common::*;
use crate::engine_checks::*;
use crate::engine_driver::*;
use inkayaku_uci::Score;
use refchess::*;
use serde_json::{json, Value};
use std::sync::atomic::{AtomicU64, Ordering};
use std::time::{Duration, Instant};

fn none(_k: u64) -> Vec<GateAction> {
    vec![]
}

/// negamax nodes of `go <line>` on a fresh engine given `position`, and its answer
fn dry_run(pos_line: &str, go_line: &str) -> (u64, SearchOut) {
    set_current_case(&format!("{} ; {}", pos_line, go_line));
    let mut s = Session::new(false);
    s.line(pos_line);
    let out = run_go(&mut s, go_line, Plan::virtual_rate(0), &none);
    s.quit();
    (out.obs.counters.max_negamax_nodes + 1, out)
}

// =======================================================================================
// C09

#[derive(Clone)]
struct Scenario {
    pos: Pos,
    moves: Vec<String>,
    depth: usize,
}

fn c09_scenarios(tier: Tier) -> Vec<Scenario> {
    let mk = |fen: &str, moves: &[&str], depth: usize| Scenario { pos: Pos::from_fen(fen).unwrap(), moves: moves.iter().map(|s| s.to_string()).collect(), depth };
    let mut v = vec![
        mk("rnbqkbnr/pppppppp/8/8/8/8/PPPPPPPP/RNBQKBNR w KQkq - 0 1", &[], 3),
        mk("rnbqkbnr/pppppppp/8/8/8/8/PPPPPPPP/RNBQKBNR w KQkq - 0 1", &["e2e4"], 3),
        mk("r3k2r/8/8/8/8/8/8/R3K2R w KQkq - 0 1", &[], 3),
        mk("rnbqkbnr/ppp1p1pp/8/3pPp2/8/8/PPPP1PPP/RNBQKBNR w KQkq f6 0 3", &[], 3),
        mk("n1n5/PPPk4/8/8/8/8/4Kppp/5N1N b - - 0 1", &[], 3),
        mk("8/2p5/3p4/KP5r/1R3p1k/8/4P1P1/8 w - - 0 1", &[], 4),
        mk("8/8/8/4k3/8/8/3Q4/4K3 b - - 0 1", &[], 4),
        // histories in which a position already occurred twice: a root move completes the third
        // occurrence, so the repetition bookkeeping (hashes of game + line) decides the root value
        mk("r5k1/8/8/8/8/8/8/R2Q2K1 w - - 0 1", &["a1b1", "a8b8", "b1a1", "b8a8", "a1b1", "a8b8", "b1a1"], 3),
        mk("rnbqkbnr/pppppppp/8/8/8/8/PPPPPPPP/RNBQKBNR w KQkq - 0 1", &["g1f3", "g8f6", "f3g1", "f6g8", "g1f3", "g8f6", "f3g1"], 3),
        // a perpetual check already played once: White is lost on material unless the checks repeat, so
        // the second return to the root position decides the value of a depth-4 search
        mk("r4rk1/5p1p/8/4Q3/8/8/q4PPP/6K1 w - - 0 30", &["e5g5", "g8h8", "g5e5", "h8g8"], 3),
    ];
    if tier == Tier::Thorough {
        v.extend(vec![
            mk("r1bqk2r/pppp1ppp/2n2n2/2b1p3/2B1P3/2N2N2/PPPP1PPP/R1BQK2R w KQkq - 4 5", &[], 3),
            mk("r3k2r/p1ppqpb1/bn2pnp1/3PN3/1p2P3/2N2Q1p/PPPBBPPP/R3K2R w KQkq - 0 1", &[], 3),
            mk("r3k2r/p1ppqpb1/bn2pnp1/3PN3/1p2P3/2N2Q1p/PPPBBPPP/R3K2R b KQkq - 0 1", &[], 3),
            mk("rnbq1k1r/pp1Pbppp/2p5/8/2B5/8/PPP1NnPP/RNBQK2R w KQ - 1 8", &[], 3),
            mk("r4rk1/1pp1qppp/p1np1n2/2b1p1B1/2B1P1b1/P1NP1N2/1PP1QPPP/R4RK1 w - - 0 10", &[], 3),
            mk("rnbqkbnr/pppppppp/8/8/8/8/PPPPPPPP/RNBQKBNR w KQkq - 0 1", &["e2e4", "e7e5", "g1f3", "b8c6"], 4),
            mk("8/8/8/2k5/3Pp3/8/8/4K3 b - d3 0 1", &[], 5),
            mk("4k3/8/8/8/8/8/5r2/R3K2R w KQ - 0 1", &[], 4),
            mk("4k2r/6P1/8/8/8/8/8/4K3 w k - 0 1", &[], 4),
        ]);
    }
    v
}

#[derive(Clone, Copy, PartialEq, Debug)]
enum Cause {
    Stop,
    Quit,
    Time,
}

struct C09Stats {
    runs: AtomicU64,
    points: AtomicU64,
    pairs: AtomicU64,
    reads: AtomicU64,
}

/// (9) the message is already waiting when the search starts: the search thread parks before its
/// first node, the stop (or isready + stop, or ponderhit + stop) is delivered, then it goes on.
/// Whatever looks at the channel first — the poll of the main search or any other place — finds it.
fn c09_message_at_start(rep: &Reporter, stats: &C09Stats, pos_line: &str, root: &Pos, depth: usize) {
    let pos_line = pos_line.to_string();
    let legal: Vec<String> = root.legal().iter().map(|m| m.uci()).collect();
    let all_legal = legal.join(" ");
    let (_, fresh1) = dry_run(&pos_line, "go depth 1");
        let forms9 = [format!("go depth {}", depth), "go infinite".to_string(), "go ponder infinite".to_string(), "go movetime 100000".to_string(), "go depth 9 searchmoves ".to_string() + &all_legal];
        let pre: [Vec<GateAction>; 3] = [vec![GateAction::Stop], vec![GateAction::IsReady, GateAction::Stop], vec![GateAction::PonderHit, GateAction::Stop]];
        let jobs9: Vec<(usize, usize)> = (0..forms9.len()).flat_map(|f| (0..pre.len()).map(move |a| (f, a))).collect();
        par_map_fine(&jobs9, |&(fi, ai)| {
            stats.runs.fetch_add(1, Ordering::Relaxed);
            let case = |extra: Value| json!({"kind": "interrupt_at_start", "position": pos_line, "depth": depth, "go": forms9[fi], "actions_index": ai, "detail": extra});
            let mut s = Session::new(false);
            s.line(&pos_line);
            let acts = pre[ai].clone();
            let out = run_go(&mut s, &forms9[fi], Plan { poll: None, clock: Clock::Rate { ns_per_node: 0, jumps: vec![] }, gates: vec![START_GATE] }, &move |kk| if kk == START_GATE { acts.clone() } else { vec![] });
            if out.problem.is_some() || out.n_best != 1 {
                rep.report("interrupted_search_gives_no_single_answer:message_waiting_at_start".to_string(), case(json!({"problem": out.problem, "bestmoves": out.n_best})));
                s.quit();
                return;
            }
            match &out.best {
                Some(b) if legal.contains(b) => {}
                other => rep.report("interrupted_search_plays_illegal_or_null_move:message_waiting_at_start".to_string(), case(json!({"bestmove": other}))),
            }
            if let (Some(b), Some(a)) = (&out.obs.before_fen, &out.obs.after_fen) {
                if a != b {
                    rep.report("position_altered_by_interrupted_search:message_waiting_at_start".to_string(), case(json!({"before": b, "after": a})));
                }
            }
            let again = run_go(&mut s, "go depth 1", Plan::virtual_rate(0), &none);
            s.quit();
            match &again.best {
                Some(b) if legal.contains(b) => {}
                other => {
                    rep.report("go_after_interruption_plays_illegal_or_null_move:message_waiting_at_start".to_string(), case(json!({"bestmove": other})));
                    return;
                }
            }
            if again.score != fresh1.score {
                rep.report("go_after_interruption_scores_differently_from_fresh_engine:message_waiting_at_start".to_string(), case(json!({"score": format!("{:?}", again.score), "fresh": format!("{:?}", fresh1.score)})));
            }
        });
}

fn c09_scenario(rep: &Reporter, sc: &Scenario, tier: Tier, stats: &C09Stats, sample: &std::sync::Mutex<Vec<Value>>) {
    let pos_line = position_line(&sc.pos, &sc.moves);
    let mut root = sc.pos.clone();
    for u in &sc.moves {
        let m = root.find_legal_uci(u).expect("scenario move legal");
        root = root.make(&m);
    }
    let legal: Vec<String> = root.legal().iter().map(|m| m.uci()).collect();
    let root_fen_key = root.key();
    // iteration boundaries and per-iteration answers on fresh engines
    let mut n_j = vec![0u64];
    let mut best_j: Vec<Option<String>> = vec![None];
    for j in 1..=sc.depth {
        let (n, out) = dry_run(&pos_line, &format!("go depth {}", j));
        if out.problem.is_some() || out.n_best != 1 {
            rep.report("uninterrupted_search_gives_no_single_answer".to_string(), json!({"kind": "interrupt", "position": pos_line, "depth": j, "problem": out.problem}));
            return;
        }
        n_j.push(n);
        best_j.push(out.best.clone());
    }
    // determinism of the subject under the harness: the same dry run twice
    let (n_again, out_again) = dry_run(&pos_line, &format!("go depth {}", sc.depth));
    if n_again != n_j[sc.depth] || out_again.best != best_j[sc.depth] {
        rep.machinery(format!("search not deterministic on {} (nodes {} vs {})", pos_line, n_again, n_j[sc.depth]));
        return;
    }
    // fresh depth-1 score of the position (oracle (3))
    let (_, fresh1) = dry_run(&pos_line, "go depth 1");
    let n2 = n_j[2];
    let total = n_j[sc.depth];
    let k_max = total - n2; // polls at counts n2 .. total-1
    stats.points.fetch_add(k_max, Ordering::Relaxed);
    sample.lock().unwrap().push(json!({"position": pos_line, "depth": sc.depth, "negamax_nodes_per_iteration": n_j, "interruption_points": k_max}));
    let expected_best = |count: u64| -> Option<String> {
        let mut j = 0;
        for i in 1..=sc.depth {
            if n_j[i] <= count {
                j = i;
            }
        }
        best_j[j].clone()
    };
    let ks: Vec<u64> = (1..=k_max).collect();
    let causes: &[Cause] = &[Cause::Stop, Cause::Quit, Cause::Time];
    // the form of the go command is a dimension of its own: forms that search the same tree (so the
    // iteration boundaries and expected answers are the measured ones) are interrupted by stop on a
    // sub-lattice of the points (every point in thorough runs)
    let all_legal = legal.join(" ");
    let forms: Vec<String> = vec![
        format!("go depth {}", sc.depth),
        format!("go ponder depth {}", sc.depth),
        "go infinite".to_string(),
        format!("go depth {} searchmoves {}", sc.depth, all_legal),
        format!("go wtime 100000000 btime 100000000 winc 100000000 binc 100000000 depth {}", sc.depth),
        "go ponder infinite".to_string(),
    ];
    // quick runs: stop at every point, quit at the odd and move-time expiry at the even ones
    let mut jobs: Vec<(u64, Cause, usize)> = ks.iter().flat_map(|&k| causes.iter().filter(move |&&c| tier == Tier::Thorough || c == Cause::Stop || (c == Cause::Quit) == (k % 2 == 1)).map(move |&c| (k, c, 0usize))).collect();
    for &k in &ks {
        for f in 1..forms.len() {
            if tier == Tier::Thorough || k as usize % 5 == f % 5 {
                jobs.push((k, Cause::Stop, f));
            }
        }
    }
    par_map_fine(&jobs, |&(k, cause, form)| {
        stats.runs.fetch_add(1, Ordering::Relaxed);
        let count = n2 + k - 1;
        let case = |extra: Value| json!({"kind": "interrupt", "position": pos_line, "depth": sc.depth, "cause": format!("{:?}", cause), "go": forms[form], "poll_index": k, "negamax_nodes_at_interruption": count, "detail": extra});
        let mut s = Session::new(false);
        s.line(&pos_line);
        let (go_line, plan) = match cause {
            Cause::Stop | Cause::Quit => (forms[form].clone(), Plan { poll: Some((1, n2)), clock: Clock::Rate { ns_per_node: 0, jumps: vec![] }, gates: vec![k] }),
            Cause::Time => (format!("go depth {} movetime 5000", sc.depth), Plan { poll: Some((1, n2)), clock: Clock::AtPoll { k, before: Duration::ZERO, after: Duration::from_secs(10) }, gates: vec![] }),
        };
        let act = move |kk: u64| -> Vec<GateAction> {
            if kk == k {
                match cause {
                    Cause::Stop => vec![GateAction::Stop],
                    Cause::Quit => vec![GateAction::Quit],
                    Cause::Time => vec![],
                }
            } else {
                vec![]
            }
        };
        let out = run_go(&mut s, &go_line, plan, &act);
        rep.sample(|| json!({"position": pos_line, "go": go_line, "cause": format!("{:?}", cause), "interrupted_at_poll": k, "negamax_nodes_at_interruption": count, "bestmove": out.best, "position_before": out.obs.before_fen, "position_after": out.obs.after_fen}));
        if cause != Cause::Quit {
            if let Some(pr) = &out.problem {
                rep.report(format!("interrupted_search_gives_no_answer:{:?}:{}", cause, short(pr)), case(json!({"problem": pr})));
                s.quit();
                return;
            }
        }
        // (1) exactly one bestmove, from the last completed iteration
        if out.n_best != 1 {
            rep.report(format!("bestmove_count_after_interruption:{:?}:{}", cause, out.n_best), case(json!({"count": out.n_best})));
        } else {
            let want = expected_best(count);
            // Engine::accept(Quit) sends and then joins, so the gate is opened by a helper a moment
            // after the send (engine_driver). On a loaded machine the quit may therefore become
            // visible some polls after the intended one — but never after the last poll the thread
            // executed: accept every answer that is right for SOME poll in that range.
            // If the machine is so loaded that the gate opened before the quit message was even sent,
            // the search may have run through ALL its polls and finished: then the complete answer is
            // the right one (count == total selects the last iteration).
            let polls_seen = out.obs.counters.polls.max(k);
            let last = if polls_seen >= k_max { total } else { n2 + polls_seen - 1 };
            let ok = if cause == Cause::Quit { (count..=last).any(|c| out.best == expected_best(c)) } else { out.best == want };
            if !ok {
                rep.report(format!("bestmove_not_from_last_completed_iteration:{:?}", cause), case(json!({"expected": want, "actual": out.best})));
            }
        }
        // (2) the search thread's own position after the search
        if let (Some(b), Some(a)) = (&out.obs.before_fen, &out.obs.after_fen) {
            if a != b {
                rep.report(format!("position_altered_by_interrupted_search:{:?}{}", cause, if form == 0 { String::new() } else { format!(":{}", forms[form].split(' ').take(2).collect::<Vec<_>>().join("_")) }), case(json!({"before": b, "after": a})));
            }
        } else if cause != Cause::Quit {
            rep.machinery("board hook did not report before/after position");
        }
        if cause == Cause::Quit {
            let (_, joined) = s.quit();
            let _ = joined;
            return;
        }
        // (3) a following go without position
        let again = run_go(&mut s, "go depth 1", Plan::virtual_rate(0), &none);
        s.quit();
        if let Some(pr) = &again.problem {
            rep.report(format!("go_after_interruption_gives_no_answer:{}", short(pr)), case(json!({"problem": pr})));
            return;
        }
        match &again.best {
            Some(b) if legal.contains(b) => {}
            other => rep.report(format!("go_after_interruption_plays_illegal_or_null_move:{:?}", cause), case(json!({"bestmove": other, "legal_moves": legal}))),
        }
        if again.score != fresh1.score {
            rep.report(format!("go_after_interruption_scores_differently_from_fresh_engine:{:?}", cause), case(json!({"score": format!("{:?}", again.score), "fresh": format!("{:?}", fresh1.score)})));
        }
        let _ = root_fen_key;
    });
    // (4) consecutive interrupted searches on one engine, coarser grid
    let grid: Vec<u64> = {
        let g = if tier == Tier::Quick { 6 } else { 16 };
        (0..g).map(|i| 1 + i * (k_max.max(1) - 1) / (g - 1).max(1)).collect()
    };
    let pairs: Vec<(u64, u64, bool)> = grid.iter().flat_map(|&a| grid.iter().flat_map(move |&b| [(a, b, false), (a, b, true)])).collect();
    par_map_fine(&pairs, |&(k1, k2, third)| {
        stats.pairs.fetch_add(1, Ordering::Relaxed);
        let case = |extra: Value| json!({"kind": "interrupt_sequence", "position": pos_line, "depth": sc.depth, "poll_indices": [k1, k2], "third_search": third, "detail": extra});
        // iteration-2 boundary of the SECOND search depends on the state the first one left: measure it
        let n2_second = {
            let mut s = Session::new(false);
            s.line(&pos_line);
            let _ = run_go(&mut s, &format!("go depth {}", sc.depth), Plan { poll: Some((1, n2)), clock: Clock::Rate { ns_per_node: 0, jumps: vec![] }, gates: vec![k1] }, &|kk| if kk == k1 { vec![GateAction::Stop] } else { vec![] });
            let o = run_go(&mut s, "go depth 2", Plan::virtual_rate(0), &none);
            s.quit();
            o.obs.counters.max_negamax_nodes + 1
        };
        let mut s = Session::new(false);
        s.line(&pos_line);
        let o1 = run_go(&mut s, &format!("go depth {}", sc.depth), Plan { poll: Some((1, n2)), clock: Clock::Rate { ns_per_node: 0, jumps: vec![] }, gates: vec![k1] }, &|kk| if kk == k1 { vec![GateAction::Stop] } else { vec![] });
        let o2 = run_go(&mut s, &format!("go depth {}", sc.depth), Plan { poll: Some((1, n2_second)), clock: Clock::Rate { ns_per_node: 0, jumps: vec![] }, gates: vec![k2] }, &|kk| if kk == k2 { vec![GateAction::Stop] } else { vec![] });
        let mut outs = vec![o1, o2];
        if third {
            let o3 = run_go(&mut s, &format!("go depth {} movetime 5000", sc.depth), Plan { poll: Some((1, n2_second.max(n2))), clock: Clock::AtPoll { k: k1.min(k2), before: Duration::ZERO, after: Duration::from_secs(10) }, gates: vec![] }, &none);
            outs.push(o3);
        }
        for (i, o) in outs.iter().enumerate() {
            if o.problem.is_some() || o.n_best != 1 {
                rep.report("consecutive_interrupted_search_gives_no_single_answer".to_string(), case(json!({"search_index": i, "problem": o.problem, "bestmoves": o.n_best})));
                s.quit();
                return;
            }
            match &o.best {
                Some(b) if legal.contains(b) => {}
                other => rep.report("consecutive_interrupted_search_plays_illegal_or_null_move".to_string(), case(json!({"search_index": i, "bestmove": other}))),
            }
            if let (Some(b), Some(a)) = (&o.obs.before_fen, &o.obs.after_fen) {
                if a != b {
                    rep.report("position_altered_by_interrupted_search:sequence".to_string(), case(json!({"search_index": i, "before": b, "after": a})));
                }
            }
        }
        let again = run_go(&mut s, "go depth 1", Plan::virtual_rate(0), &none);
        s.quit();
        match &again.best {
            Some(b) if legal.contains(b) => {}
            other => rep.report("go_after_interruptions_plays_illegal_or_null_move".to_string(), case(json!({"bestmove": other}))),
        }
        if again.score != fresh1.score {
            rep.report("go_after_interruptions_scores_differently_from_fresh_engine".to_string(), case(json!({"score": format!("{:?}", again.score), "fresh": format!("{:?}", fresh1.score)})));
        }
    });
    // (7) the position the engine holds includes the game history that came with it: after an
    // interrupted search, a deeper follow-up search (depth 4: far enough to come back to the root
    // position) must give what the same engine gives when the position command is sent again first —
    // a differential oracle: both engines went through the same interrupted search, so tables and
    // move-ordering state are identical, only the re-sent position command differs
    if !sc.moves.is_empty() {
        let g7 = if tier == Tier::Quick { 5 } else { 16 };
        let grid7: Vec<u64> = (0..g7).map(|i| 1 + i * (k_max.max(1) - 1) / (g7 - 1).max(1)).collect();
        par_map_fine(&grid7, |&k| {
            stats.runs.fetch_add(2, Ordering::Relaxed);
            let run = |resend: bool| -> SearchOut {
                let mut s = Session::new(false);
                s.line(&pos_line);
                let _ = run_go(&mut s, &format!("go depth {}", sc.depth), Plan { poll: Some((1, n2)), clock: Clock::Rate { ns_per_node: 0, jumps: vec![] }, gates: vec![k] }, &|kk| if kk == k { vec![GateAction::Stop] } else { vec![] });
                if resend {
                    s.line(&pos_line);
                }
                let o = run_go(&mut s, "go depth 4", Plan::virtual_rate(0), &none);
                s.quit();
                o
            };
            let kept = run(false);
            let resent = run(true);
            if kept.problem.is_some() || resent.problem.is_some() {
                rep.report("go_after_interruption_gives_no_answer:depth4".to_string(), json!({"kind": "interrupt_history", "position": pos_line, "depth": sc.depth, "poll_index": k, "detail": {"problems": [kept.problem, resent.problem]}}));
                return;
            }
            if kept.score != resent.score {
                rep.report("deeper_go_after_interruption_differs_from_the_same_engine_given_the_position_again".to_string(), json!({"kind": "interrupt_history", "position": pos_line, "depth": sc.depth, "poll_index": k, "detail": {"go_depth_4_without_position": format!("{:?} {:?}", kept.score, kept.best), "go_depth_4_after_resending_the_position": format!("{:?} {:?}", resent.score, resent.best)}}));
            }
        });
    }
    // (8) the interrupted search is a PONDER search on the position the engine itself predicted:
    // position P, go depth 3 -> bestmove m0 ponder m1; position P moves m0 m1; go ponder infinite /
    // go infinite / go ponder depth 9, stopped at the first poll a real build can reach; then the
    // follow-up go without position
    {
        let (_, first) = dry_run(&pos_line, "go depth 3");
        if first.problem.is_none() && first.pv.len() >= 2 {
            let mut moves2 = sc.moves.clone();
            moves2.push(first.pv[0].clone());
            moves2.push(first.pv[1].clone());
            let mut root2 = sc.pos.clone();
            let mut ok = true;
            for u in &moves2 {
                match root2.find_legal_uci(u) {
                    Some(m) => root2 = root2.make(&m),
                    None => ok = false,
                }
            }
            if ok && root2.has_legal_move() {
                let pos_line2 = position_line(&sc.pos, &moves2);
                let legal2: Vec<String> = root2.legal().iter().map(|m| m.uci()).collect();
                let (_, fresh2) = dry_run(&pos_line2, "go depth 1");
                let forms8 = ["go ponder infinite", "go infinite", "go ponder depth 9", "go ponder movetime 100000"];
                let idx8: Vec<usize> = (0..forms8.len()).collect();
                par_map_fine(&idx8, |&fi| {
                    stats.runs.fetch_add(1, Ordering::Relaxed);
                    let case = |extra: Value| json!({"kind": "interrupt_ponder_continuation", "position": pos_line, "depth": sc.depth, "continuation": pos_line2, "go": forms8[fi], "poll_index": 1, "detail": extra});
                    let mut s = Session::new(false);
                    s.line(&pos_line);
                    let _ = run_go(&mut s, "go depth 3", Plan::virtual_rate(0), &none);
                    s.line(&pos_line2);
                    let out = run_go(&mut s, forms8[fi], Plan { poll: Some((500, 48_000)), clock: Clock::Rate { ns_per_node: 0, jumps: vec![] }, gates: vec![1] }, &|kk| if kk == 1 { vec![GateAction::Stop] } else { vec![] });
                    if out.problem.is_some() || out.n_best != 1 {
                        rep.report("interrupted_search_gives_no_single_answer:ponder_continuation".to_string(), case(json!({"problem": out.problem, "bestmoves": out.n_best})));
                        s.quit();
                        return;
                    }
                    if let (Some(b), Some(a)) = (&out.obs.before_fen, &out.obs.after_fen) {
                        if a != b {
                            rep.report("position_altered_by_interrupted_search:ponder_continuation".to_string(), case(json!({"before": b, "after": a})));
                        }
                    }
                    let again = run_go(&mut s, "go depth 1", Plan::virtual_rate(0), &none);
                    s.quit();
                    match &again.best {
                        Some(b) if legal2.contains(b) => {}
                        other => {
                            rep.report("go_after_interruption_plays_illegal_or_null_move:ponder_continuation".to_string(), case(json!({"bestmove": other, "legal_moves": legal2})));
                            return;
                        }
                    }
                    if again.score != fresh2.score {
                        rep.report("go_after_interruption_scores_differently_from_fresh_engine:ponder_continuation".to_string(), case(json!({"score": format!("{:?}", again.score), "fresh": format!("{:?}", fresh2.score)})));
                    }
                });
            }
        }
    }
    // (9) the message is already waiting when the search starts
    c09_message_at_start(rep, stats, &pos_line, &root, sc.depth);
    // (6) earlier in the session, commands that belong to the idle state (position, go) arrived WHILE a
    // search was running. What the engine does with them then is its own business; but afterwards
    // the position given while idle is the position, however many searches follow.
    {
        let other = "position fen 4k3/8/8/8/8/8/4P3/4K3 w - - 0 1";
        let strays: [Vec<GateAction>; 3] = [
            vec![GateAction::Line(other.to_string())],
            vec![GateAction::Line("go depth 1".to_string()), GateAction::IsReady],
            vec![GateAction::Line(format!("{} moves e2e4", other)), GateAction::Line("go infinite".to_string())],
        ];
        let g6 = if tier == Tier::Quick { 4 } else { 12 };
        let grid6: Vec<u64> = (0..g6).map(|i| 1 + i * (k_max.max(1) - 1) / (g6 - 1).max(1)).collect();
        let jobs6: Vec<(usize, u64)> = (0..strays.len()).flat_map(|si| grid6.iter().map(move |&k| (si, k))).collect();
        par_map_fine(&jobs6, |&(si, k)| {
            stats.runs.fetch_add(1, Ordering::Relaxed);
            let case = |extra: Value| json!({"kind": "interrupt_after_stray", "position": pos_line, "depth": sc.depth, "stray_commands_during_an_earlier_search": format!("{:?}", strays[si]), "stray_index": si, "poll_index": k, "detail": extra});
            let mut s = Session::new(false);
            s.line("position startpos moves d2d4 d7d5");
            let stray = strays[si].clone();
            let warm = run_go(&mut s, "go depth 3", Plan { poll: Some((1, 1)), clock: Clock::Rate { ns_per_node: 0, jumps: vec![] }, gates: vec![5] }, &move |kk| if kk == 5 { stray.clone() } else { vec![] });
            if warm.problem.is_some() || warm.n_best != 1 {
                rep.report("search_with_stray_commands_gives_no_single_answer".to_string(), case(json!({"problem": warm.problem, "bestmoves": warm.n_best})));
                s.quit();
                return;
            }
            let _ = s.settle(Duration::from_millis(2));
            // two rounds: the given position must stay the position after EVERY later search
            for round in 0..2 {
                if round == 0 {
                    s.line(&pos_line);
                }
                let out = run_go(&mut s, &format!("go depth {}", sc.depth), Plan { poll: Some((1, n2)), clock: Clock::Rate { ns_per_node: 0, jumps: vec![] }, gates: vec![k] }, &|kk| if kk == k { vec![GateAction::Stop] } else { vec![] });
                if out.problem.is_some() || out.n_best != 1 {
                    rep.report("interrupted_search_gives_no_single_answer:after_stray_commands".to_string(), case(json!({"round": round, "problem": out.problem, "bestmoves": out.n_best})));
                    break;
                }
                match &out.best {
                    Some(b) if legal.contains(b) => {}
                    other => {
                        rep.report("interrupted_search_plays_illegal_or_null_move:after_stray_commands".to_string(), case(json!({"round": round, "bestmove": other})));
                        break;
                    }
                }
                let again = run_go(&mut s, "go depth 1", Plan::virtual_rate(0), &none);
                if let Some(pr) = &again.problem {
                    rep.report(format!("go_after_interruption_gives_no_answer:{}", short(pr)), case(json!({"round": round, "problem": pr})));
                    break;
                }
                match &again.best {
                    Some(b) if legal.contains(b) => {}
                    other => {
                        rep.report("go_after_interruption_plays_illegal_or_null_move:after_stray_commands".to_string(), case(json!({"round": round, "bestmove": other, "legal_moves": legal})));
                        break;
                    }
                }
                if again.score != fresh1.score {
                    rep.report("go_after_interruption_scores_differently_from_fresh_engine:after_stray_commands".to_string(), case(json!({"round": round, "score": format!("{:?}", again.score), "fresh": format!("{:?}", fresh1.score)})));
                    break;
                }
            }
            s.quit();
        });
    }
    // (5) messages that arrive at a clock read instead of a poll, one second or more into the search.
    // Every clock read of the search thread is the other place where it can be observed (and where
    // product code may look at the command channel): park there, deliver the stop, go on.
    let late = Clock::Rate { ns_per_node: 1000, jumps: vec![(1, Duration::from_secs(2))] };
    for scaled in [false, true] {
        let poll = if scaled { Some((1, n2)) } else { None };
        let go_line = format!("go depth {}", sc.depth);
        let reads = {
            let mut s = Session::new(false);
            s.line(&pos_line);
            let o = run_go(&mut s, &go_line, Plan { poll, clock: late.clone(), gates: vec![] }, &none);
            s.quit();
            if o.problem.is_some() || o.best != best_j[sc.depth] {
                rep.report("late_clock_changes_depth_limited_search".to_string(), json!({"kind": "interrupt_at_read", "position": pos_line, "depth": sc.depth, "scaled_polls": scaled, "read_index": 0, "detail": {"problem": o.problem, "best": o.best, "expected": best_j[sc.depth]}}));
                continue;
            }
            o.obs.counters.clock_reads
        };
        let stride = if scaled && tier == Tier::Quick { 4 } else { 1 };
        let cap = if tier == Tier::Quick { 600 } else { 20_000 };
        let rs: Vec<u64> = (1..=reads).filter(|r| (r - 1) % stride == 0 || *r == reads).take(cap).collect();
        stats.reads.fetch_add(rs.len() as u64, Ordering::Relaxed);
        par_map_fine(&rs, |&r| {
            stats.runs.fetch_add(1, Ordering::Relaxed);
            let case = |extra: Value| json!({"kind": "interrupt_at_read", "position": pos_line, "depth": sc.depth, "scaled_polls": scaled, "read_index": r, "detail": extra});
            let mut s = Session::new(false);
            s.line(&pos_line);
            let g = READ_GATE + r;
            let out = run_go(&mut s, &go_line, Plan { poll, clock: late.clone(), gates: vec![g] }, &move |kk| if kk == g { vec![GateAction::Stop] } else { vec![] });
            if let Some(pr) = &out.problem {
                rep.report(format!("interrupted_search_gives_no_answer:StopAtRead:{}", short(pr)), case(json!({"problem": pr})));
                s.quit();
                return;
            }
            if out.obs.parked_at != vec![g] {
                rep.machinery(format!("read gate {} not reached on {} (parked at {:?})", r, pos_line, out.obs.parked_at));
            }
            // the stop becomes visible at the first poll after the read
            let want = if scaled { expected_best((out.obs.counters.nodes_at_read_park.unwrap_or(0) + 1).max(n2)) } else { best_j[sc.depth].clone() };
            if out.n_best != 1 {
                rep.report(format!("bestmove_count_after_interruption:StopAtRead:{}", out.n_best), case(json!({"count": out.n_best})));
            } else if out.best != want {
                rep.report("bestmove_not_from_last_completed_iteration:StopAtRead".to_string(), case(json!({"expected": want, "actual": out.best})));
            }
            if let (Some(b), Some(a)) = (&out.obs.before_fen, &out.obs.after_fen) {
                if a != b {
                    rep.report("position_altered_by_interrupted_search:StopAtRead".to_string(), case(json!({"before": b, "after": a})));
                }
            } else {
                rep.machinery("board hook did not report before/after position");
            }
            let again = run_go(&mut s, "go depth 1", Plan::virtual_rate(0), &none);
            s.quit();
            if let Some(pr) = &again.problem {
                rep.report(format!("go_after_interruption_gives_no_answer:{}", short(pr)), case(json!({"problem": pr})));
                return;
            }
            match &again.best {
                Some(b) if legal.contains(b) => {}
                other => rep.report("go_after_interruption_plays_illegal_or_null_move:StopAtRead".to_string(), case(json!({"bestmove": other, "legal_moves": legal}))),
            }
            if again.score != fresh1.score {
                rep.report("go_after_interruption_scores_differently_from_fresh_engine:StopAtRead".to_string(), case(json!({"score": format!("{:?}", again.score), "fresh": format!("{:?}", fresh1.score)})));
            }
        });
    }
}

pub fn run_c09(tier: Tier) -> i32 {
    let started = Instant::now();
    let rep = Reporter::new("C09");
    let scs = c09_scenarios(tier);
    let stats = C09Stats { runs: Default::default(), points: Default::default(), pairs: Default::default(), reads: Default::default() };
    let sample = std::sync::Mutex::new(Vec::new());
    for sc in &scs {
        c09_scenario(&rep, sc, tier, &stats, &sample);
    }
    // (9) again on capture-rich roots (where the first nodes of a search are already deep in captures)
    let tactical = ["r3k2r/p1ppqpb1/bn2pnp1/3PN3/1p2P3/2N2Q1p/PPPBBPPP/R3K2R w KQkq - 0 1", "r3k2r/p1ppqpb1/bn2pnp1/3PN3/1p2P3/2N2Q1p/PPPBBPPP/R3K2R b KQkq - 0 1", "r4rk1/1pp1qppp/p1np1n2/2b1p1B1/2B1P1b1/P1NP1N2/1PP1QPPP/R4RK1 w - - 0 10", "rnbq1k1r/pp1Pbppp/2p5/8/2B5/8/PPP1NnPP/RNBQK2R w KQ - 1 8", "r2q1rk1/pP1p2pp/Q4n2/bbp1p3/Np6/1B3NBn/pPPP1PPP/R3K2R b KQ - 0 1", "n1n5/PPPk4/8/8/8/8/4Kppp/5N1N w - - 0 1"];
    for f in tactical {
        let p = Pos::from_fen(f).unwrap();
        for q in [p.flip(), p] {
            c09_message_at_start(&rep, &stats, &position_line(&q, &[]), &q, 3);
        }
    }
    // real-interval conformance: the original 100 000-node rule, every true poll index
    let t0 = Instant::now();
    let conf = c09_real_interval(&rep, tier);
    let mut cov = Coverage::new();
    cov.states = stats.points.load(Ordering::Relaxed);
    cov.transitions = stats.runs.load(Ordering::Relaxed) + stats.pairs.load(Ordering::Relaxed) + conf;
    cov.traces_validated = conf;
    cov.set("scenarios", json!(sample.into_inner().unwrap()));
    cov.set("interruption_points", json!(stats.points.load(Ordering::Relaxed)));
    cov.set("runs_one_per_point_and_cause", json!(stats.runs.load(Ordering::Relaxed)));
    cov.set("consecutive_interruption_sequences", json!(stats.pairs.load(Ordering::Relaxed)));
    cov.set("clock_read_interruption_points", json!(stats.reads.load(Ordering::Relaxed)));
    cov.set("real_interval_conformance_runs", json!(conf));
    cov.set("real_interval_secs", json!(t0.elapsed().as_secs_f64()));
    cov.set("explanation", json!("every negamax node after iteration 2 is an interruption point (poll interval lowered to 1 through the hook; iterations 1-2 cost < 100 000 nodes in the real build so no real poll can fall earlier); one run per point for each cause stop / quit / move-time expiry; pairs and triples of consecutive interrupted searches on a grid; plus runs with the original 100 000-node interval where every true poll index is stopped"));
    cov.samples = vec![json!({"position": "startpos", "go": "depth 3", "stop_visible_at_poll": 17, "then": "go depth 1 without position"})];
    cov.assumptions = vec!["FIFO channel; an execution is determined by which poll first sees each message and by the clock answers (DESIGN §2.6)".into()];
    if stats.points.load(Ordering::Relaxed) == 0 {
        rep.machinery("vacuous: no interruption points");
    }
    finish(&rep, tier, cov, started)
}

/// the unscaled model: original poll rule, searches large enough to poll, stop at every true poll
fn c09_real_interval(rep: &Reporter, tier: Tier) -> u64 {
    let cases: Vec<(&str, usize)> = if tier == Tier::Quick { vec![("r3k2r/p1ppqpb1/bn2pnp1/3PN3/1p2P3/2N2Q1p/PPPBBPPP/R3K2R w KQkq - 0 1", 5)] } else { vec![("r3k2r/p1ppqpb1/bn2pnp1/3PN3/1p2P3/2N2Q1p/PPPBBPPP/R3K2R w KQkq - 0 1", 5), ("rnbqkbnr/pppppppp/8/8/8/8/PPPPPPPP/RNBQKBNR w KQkq - 0 1", 6), ("r4rk1/1pp1qppp/p1np1n2/2b1p1B1/2B1P1b1/P1NP1N2/1PP1QPPP/R4RK1 w - - 0 10", 5)] };
    let mut runs = 0u64;
    for (fen, depth0) in cases {
        let p = Pos::from_fen(fen).unwrap();
        let pos_line = position_line(&p, &[]);
        let legal: Vec<String> = p.legal().iter().map(|m| m.uci()).collect();
        // deepen until the search is long enough to poll at least twice under the original rule
        let mut depth = depth0;
        let (mut total, mut full) = dry_run(&pos_line, &format!("go depth {}", depth));
        while total < 250_000 && depth < 9 {
            depth += 1;
            let r = dry_run(&pos_line, &format!("go depth {}", depth));
            total = r.0;
            full = r.1;
        }
        let polls = (total - 1) / 100_000;
        let (_, fresh1) = dry_run(&pos_line, "go depth 1");
        let mut n_j = vec![0u64];
        let mut best_j: Vec<Option<String>> = vec![None];
        for j in 1..=depth {
            let (n, o) = dry_run(&pos_line, &format!("go depth {}", j));
            n_j.push(n);
            best_j.push(o.best);
        }
        let _ = full;
        let ks: Vec<u64> = (1..=polls).collect();
        runs += ks.len() as u64;
        par_map_fine(&ks, |&k| {
            let mut s = Session::new(false);
            s.line(&pos_line);
            let out = run_go(&mut s, &format!("go depth {}", depth), Plan { poll: None, clock: Clock::Rate { ns_per_node: 0, jumps: vec![] }, gates: vec![k] }, &|kk| if kk == k { vec![GateAction::Stop] } else { vec![] });
            let count = k * 100_000;
            let mut j = 0;
            for i in 1..=depth {
                if n_j[i] <= count {
                    j = i;
                }
            }
            let case = |extra: Value| json!({"kind": "interrupt_real_interval", "position": pos_line, "depth": depth, "poll_index": k, "detail": extra});
            if out.n_best != 1 || out.best != best_j[j] {
                rep.report("real_interval:bestmove_not_from_last_completed_iteration".to_string(), case(json!({"expected": best_j[j], "actual": out.best, "bestmoves": out.n_best})));
            }
            if let (Some(b), Some(a)) = (&out.obs.before_fen, &out.obs.after_fen) {
                if a != b {
                    rep.report("position_altered_by_interrupted_search:real_interval".to_string(), case(json!({"before": b, "after": a})));
                }
            }
            let again = run_go(&mut s, "go depth 1", Plan::virtual_rate(0), &none);
            s.quit();
            match &again.best {
                Some(b) if legal.contains(b) => {}
                other => rep.report("go_after_interruption_plays_illegal_or_null_move:real_interval".to_string(), case(json!({"bestmove": other}))),
            }
            if again.score != fresh1.score {
                rep.report("go_after_interruption_scores_differently_from_fresh_engine:real_interval".to_string(), case(json!({"score": format!("{:?}", again.score), "fresh": format!("{:?}", fresh1.score)})));
            }
        });
    }
    runs
}

pub fn replay_c09(case: &Value) -> i32 {
    let started = Instant::now();
    let rep = Reporter::new("C09");
    let pos_line = case["position"].as_str().unwrap_or("position startpos").to_string();
    let depth = case["depth"].as_u64().unwrap_or(3) as usize;
    if case["kind"] == "interrupt_history" {
        let k = case["poll_index"].as_u64().unwrap_or(1);
        let (n2, _) = dry_run(&pos_line, "go depth 2");
        let run = |resend: bool| -> SearchOut {
            let mut s = Session::new(false);
            s.line(&pos_line);
            let _ = run_go(&mut s, &format!("go depth {}", depth), Plan { poll: Some((1, n2)), clock: Clock::Rate { ns_per_node: 0, jumps: vec![] }, gates: vec![k] }, &|kk| if kk == k { vec![GateAction::Stop] } else { vec![] });
            if resend {
                s.line(&pos_line);
            }
            let o = run_go(&mut s, "go depth 4", Plan::virtual_rate(0), &none);
            s.quit();
            o
        };
        let (kept, resent) = (run(false), run(true));
        println!("go depth 4 after the interrupted search: {:?} {:?}; the same after sending the position again: {:?} {:?}", kept.score, kept.best, resent.score, resent.best);
        if kept.score != resent.score {
            rep.report("deeper_go_after_interruption_differs_from_the_same_engine_given_the_position_again".to_string(), json!({"kind": "interrupt_history", "position": pos_line, "depth": depth, "poll_index": k}));
        }
        println!("replay: {} violating case(s) reproduced", rep.violation_count());
        let mut cov = Coverage::new();
        cov.states = 1;
        return finish(&rep, Tier::Quick, cov, started);
    }
    if case["kind"] == "interrupt_at_start" {
        let go = case["go"].as_str().unwrap_or("go infinite").to_string();
        let acts: Vec<GateAction> = match case["actions_index"].as_u64().unwrap_or(0) {
            0 => vec![GateAction::Stop],
            1 => vec![GateAction::IsReady, GateAction::Stop],
            _ => vec![GateAction::PonderHit, GateAction::Stop],
        };
        let legal: Vec<String> = pos_of_position_line(&pos_line).map(|p| p.legal().iter().map(|m| m.uci()).collect()).unwrap_or_default();
        let (_, fresh1) = dry_run(&pos_line, "go depth 1");
        let mut s = Session::new(false);
        s.line(&pos_line);
        let a2 = acts.clone();
        let out = run_go(&mut s, &go, Plan { poll: None, clock: Clock::Rate { ns_per_node: 0, jumps: vec![] }, gates: vec![START_GATE] }, &move |kk| if kk == START_GATE { a2.clone() } else { vec![] });
        let again = if out.problem.is_none() { Some(run_go(&mut s, "go depth 1", Plan::virtual_rate(0), &none)) } else { None };
        s.quit();
        println!("{} with {:?} already waiting when the search starts -> bestmoves {} {:?} (problem {:?}); position before {:?}, after {:?}; go depth 1 without position -> {:?}; fresh engine: {:?} {:?}", go, acts, out.n_best, out.best, out.problem, out.obs.before_fen, out.obs.after_fen, again.as_ref().map(|a| (a.best.clone(), a.score.clone())), fresh1.best, fresh1.score);
        let case2 = json!({"kind": "interrupt_at_start", "position": pos_line, "depth": depth, "go": go, "actions_index": case["actions_index"]});
        if out.problem.is_some() || out.n_best != 1 {
            rep.report("interrupted_search_gives_no_single_answer:message_waiting_at_start".to_string(), case2.clone());
        } else if !matches!(&out.best, Some(b) if legal.contains(b)) {
            rep.report("interrupted_search_plays_illegal_or_null_move:message_waiting_at_start".to_string(), case2.clone());
        } else if out.obs.before_fen.is_some() && out.obs.after_fen.is_some() && out.obs.before_fen != out.obs.after_fen {
            rep.report("position_altered_by_interrupted_search:message_waiting_at_start".to_string(), case2.clone());
        } else if let Some(again) = again {
            if !matches!(&again.best, Some(b) if legal.contains(b)) {
                rep.report("go_after_interruption_plays_illegal_or_null_move:message_waiting_at_start".to_string(), case2.clone());
            } else if again.score != fresh1.score {
                rep.report("go_after_interruption_scores_differently_from_fresh_engine:message_waiting_at_start".to_string(), case2.clone());
            }
        }
        println!("replay: {} violating case(s) reproduced", rep.violation_count());
        let mut cov = Coverage::new();
        cov.states = 1;
        return finish(&rep, Tier::Quick, cov, started);
    }
    if case["kind"] == "interrupt_ponder_continuation" {
        let pos_line2 = case["continuation"].as_str().unwrap_or(&pos_line).to_string();
        let go = case["go"].as_str().unwrap_or("go ponder infinite").to_string();
        // the legal replies in the continued position, from the reference
        let legal2: Vec<String> = match pos_of_position_line(&pos_line2) {
            Some(p) => p.legal().iter().map(|m| m.uci()).collect(),
            None => Vec::new(),
        };
        let (_, fresh2) = dry_run(&pos_line2, "go depth 1");
        let mut s = Session::new(false);
        s.line(&pos_line);
        let first = run_go(&mut s, "go depth 3", Plan::virtual_rate(0), &none);
        s.line(&pos_line2);
        let out = run_go(&mut s, &go, Plan { poll: Some((500, 48_000)), clock: Clock::Rate { ns_per_node: 0, jumps: vec![] }, gates: vec![1] }, &|kk| if kk == 1 { vec![GateAction::Stop] } else { vec![] });
        let again = run_go(&mut s, "go depth 1", Plan::virtual_rate(0), &none);
        s.quit();
        println!("go depth 3 -> {:?} pv {:?}; {} on the continuation, stopped at the first poll -> {:?}; go depth 1 without position -> {:?} {:?}; fresh engine on the continuation: {:?} {:?}", first.best, first.pv, go, out.best, again.best, again.score, fresh2.best, fresh2.score);
        let case2 = json!({"kind": "interrupt_ponder_continuation", "position": pos_line, "depth": depth, "continuation": pos_line2, "go": go, "poll_index": 1});
        if out.problem.is_some() || out.n_best != 1 {
            rep.report("interrupted_search_gives_no_single_answer:ponder_continuation".to_string(), case2.clone());
        } else if out.obs.before_fen.is_some() && out.obs.before_fen != out.obs.after_fen {
            rep.report("position_altered_by_interrupted_search:ponder_continuation".to_string(), case2.clone());
        } else if !matches!(&again.best, Some(b) if legal2.contains(b)) {
            rep.report("go_after_interruption_plays_illegal_or_null_move:ponder_continuation".to_string(), case2.clone());
        } else if again.score != fresh2.score {
            rep.report("go_after_interruption_scores_differently_from_fresh_engine:ponder_continuation".to_string(), case2.clone());
        }
        println!("replay: {} violating case(s) reproduced", rep.violation_count());
        let mut cov = Coverage::new();
        cov.states = 1;
        return finish(&rep, Tier::Quick, cov, started);
    }
    if case["kind"] == "interrupt_after_stray" {
        let other = "position fen 4k3/8/8/8/8/8/4P3/4K3 w - - 0 1";
        let stray: Vec<GateAction> = match case["stray_index"].as_u64().unwrap_or(0) {
            0 => vec![GateAction::Line(other.to_string())],
            1 => vec![GateAction::Line("go depth 1".to_string()), GateAction::IsReady],
            _ => vec![GateAction::Line(format!("{} moves e2e4", other)), GateAction::Line("go infinite".to_string())],
        };
        let k = case["poll_index"].as_u64().unwrap_or(1);
        let (n2, _) = dry_run(&pos_line, "go depth 2");
        let (_, fresh1) = dry_run(&pos_line, "go depth 1");
        let mut s = Session::new(false);
        s.line("position startpos moves d2d4 d7d5");
        let st = stray.clone();
        let _ = run_go(&mut s, "go depth 3", Plan { poll: Some((1, 1)), clock: Clock::Rate { ns_per_node: 0, jumps: vec![] }, gates: vec![5] }, &move |kk| if kk == 5 { st.clone() } else { vec![] });
        let _ = s.settle(Duration::from_millis(2));
        for round in 0..2 {
            if round == 0 {
                s.line(&pos_line);
            }
            let out = run_go(&mut s, &format!("go depth {}", depth), Plan { poll: Some((1, n2)), clock: Clock::Rate { ns_per_node: 0, jumps: vec![] }, gates: vec![k] }, &|kk| if kk == k { vec![GateAction::Stop] } else { vec![] });
            let again = run_go(&mut s, "go depth 1", Plan::virtual_rate(0), &none);
            println!("round {}: interrupted go -> {:?}; go depth 1 without position -> {:?} {:?}; fresh engine on the given position: {:?} {:?}", round, out.best, again.best, again.score, fresh1.best, fresh1.score);
            if again.score != fresh1.score {
                rep.report("go_after_interruption_scores_differently_from_fresh_engine:after_stray_commands".to_string(), json!({"kind": "interrupt_after_stray", "position": pos_line, "depth": depth, "stray_index": case["stray_index"], "poll_index": k, "round": round}));
                break;
            }
        }
        s.quit();
        println!("replay: {} violating case(s) reproduced", rep.violation_count());
        let mut cov = Coverage::new();
        cov.states = 1;
        return finish(&rep, Tier::Quick, cov, started);
    }
    let k = case["poll_index"].as_u64().or_else(|| case["poll_indices"][0].as_u64()).unwrap_or(1);
    let real = case["kind"] == "interrupt_real_interval";
    let at_read = case["kind"] == "interrupt_at_read";
    let scaled = case["scaled_polls"].as_bool().unwrap_or(true);
    let k = if at_read { READ_GATE + case["read_index"].as_u64().unwrap_or(1) } else { k };
    let (n2, _) = dry_run(&pos_line, "go depth 2");
    let (_, fresh1) = dry_run(&pos_line, "go depth 1");
    let mut obs = Vec::new();
    for round in 0..2 {
        let mut s = Session::new(false);
        s.line(&pos_line);
        let plan = if at_read {
            Plan { poll: if scaled { Some((1, n2)) } else { None }, clock: Clock::Rate { ns_per_node: 1000, jumps: vec![(1, Duration::from_secs(2))] }, gates: vec![k] }
        } else {
            Plan { poll: if real { None } else { Some((1, n2)) }, clock: Clock::Rate { ns_per_node: 0, jumps: vec![] }, gates: vec![k] }
        };
        let go_form = case["go"].as_str().map(|g| g.to_string()).unwrap_or_else(|| format!("go depth {}", depth));
        let out = run_go(&mut s, &go_form, plan, &|kk| if kk == k { vec![GateAction::Stop] } else { vec![] });
        let again = run_go(&mut s, "go depth 1", Plan::virtual_rate(0), &none);
        s.quit();
        if round == 0 {
            println!("interrupted go: bestmove {:?}; position before {:?} after {:?}", out.best, out.obs.before_fen, out.obs.after_fen);
            println!("following go depth 1: bestmove {:?} score {:?}; fresh engine: {:?} {:?}", again.best, again.score, fresh1.best, fresh1.score);
        }
        obs.push((out.best.clone(), out.obs.before_fen.clone(), out.obs.after_fen.clone(), again.best.clone(), again.score));
        if round == 1 {
            if obs[0] != obs[1] {
                eprintln!("MACHINERY: two replays of the same schedule differ");
                return 2;
            }
            if out.obs.before_fen != out.obs.after_fen {
                rep.report("position_altered_by_interrupted_search".to_string(), json!({"kind": "interrupt", "position": pos_line, "depth": depth, "poll_index": k}));
            }
            if again.score != fresh1.score {
                rep.report("go_after_interruption_scores_differently_from_fresh_engine".to_string(), json!({"kind": "interrupt", "position": pos_line, "depth": depth, "poll_index": k}));
            }
        }
    }
    println!("replay: {} violating case(s) reproduced", rep.violation_count());
    let mut cov = Coverage::new();
    cov.states = 1;
    finish(&rep, Tier::Quick, cov, started)
}

// =======================================================================================
// C07

#[derive(Clone, Debug)]
struct GoSpec {
    line: String,
    /// no finite limit in the command: the driver must send stop
    needs_stop: bool,
    searchmoves: Vec<String>,
}

fn c07_positions(tier: Tier) -> Vec<(Pos, Vec<String>, &'static str)> {
    let mk = |fen: &str, moves: &[&str], tag: &'static str| (Pos::from_fen(fen).unwrap(), moves.iter().map(|s| s.to_string()).collect::<Vec<_>>(), tag);
    let rep8: Vec<&str> = vec!["g1f3", "g8f6", "f3g1", "f6g8", "g1f3", "g8f6", "f3g1", "f6g8"];
    let mut v = vec![
        mk("rnbqkbnr/pppppppp/8/8/8/8/PPPPPPPP/RNBQKBNR w KQkq - 0 1", &[], "start"),
        mk("r3k2r/p1ppqpb1/bn2pnp1/3PN3/1p2P3/2N2Q1p/PPPBBPPP/R3K2R w KQkq - 0 1", &[], "kiwipete"),
        mk("k7/8/8/8/8/7P/5PP1/r5K1 w - - 0 1", &[], "single_legal_move"),
        mk("rnbqkbnr/pppppppp/8/8/8/8/PPPPPPPP/RNBQKBNR w KQkq - 0 1", &rep8[..4], "root_occurred_twice"),
        mk("rnbqkbnr/pppppppp/8/8/8/8/PPPPPPPP/RNBQKBNR w KQkq - 0 1", &rep8[..8], "root_occurred_three_times"),
    ];
    if tier == Tier::Thorough || true {
        v.extend(vec![
            mk("7k/5Q2/6K1/8/8/8/8/8 b - - 0 1", &[], "stalemate"),
            mk("rnb1kbnr/pppp1ppp/8/4p3/6Pq/5P2/PPPPP2P/RNBQKBNR w KQkq - 1 3", &[], "checkmate"),
            mk("8/8/8/2k5/3Pp3/8/8/4K3 b - d3 0 1", &[], "in_check_ep_evasion"),
            mk("8/5P1k/8/8/8/8/8/K7 w - - 0 1", &[], "promotion"),
            mk("rnbqkbnr/pppppppp/8/8/8/8/PPPPPPPP/RNBQKBNR b KQkq - 0 40", &[], "black_to_move_move_40"),
            mk("4k3/8/8/8/8/8/8/4K2R w K - 0 2400", &[], "fullmove_2400"),
            mk("4k3/8/8/8/8/8/8/4K2R w K - 0 2499", &[], "fullmove_2499"),
            mk("4k3/8/8/8/8/8/8/4K2R w K - 0 2500", &[], "fullmove_2500"),
            mk("4k3/8/8/8/8/8/8/4K2R b K - 0 3000", &[], "fullmove_3000"),
        ]);
    }
    v
}

fn c07_go_specs(root: &Pos, full: bool) -> Vec<GoSpec> {
    let legal: Vec<String> = root.legal().iter().map(|m| m.uci()).collect();
    let illegal = "a1a1".to_string();
    let mut sms: Vec<Vec<String>> = vec![vec![]];
    if !legal.is_empty() {
        sms.push(vec![legal[legal.len() / 2].clone()]);
        if legal.len() >= 2 {
            sms.push(vec![legal[0].clone(), legal[legal.len() - 1].clone()]);
        }
        sms.push(vec![legal[0].clone(), illegal.clone()]);
    }
    let depths: &[Option<u32>] = &[None, Some(1), Some(2), Some(3)];
    let movetimes: &[Option<u64>] = &[None, Some(0), Some(1), Some(50)];
    let times: &[Option<u64>] = &[None, Some(0), Some(1500), Some(15000), Some(60000)];
    let incs: &[Option<u64>] = &[None, Some(0), Some(100)];
    let mut out = Vec::new();
    for d in depths {
        for mt in movetimes {
            for t in times {
                for inc in incs {
                    if t.is_none() && inc.is_some() {
                        continue; // increments without clock times: covered by one line below
                    }
                    for inf in [false, true] {
                        for sm in &sms {
                            for ignored in [false, true] {
                                if !full && ignored && (d.is_none() || inf) {
                                    continue;
                                }
                                let mut l = String::from("go");
                                if !sm.is_empty() {
                                    l.push_str(&format!(" searchmoves {}", sm.join(" ")));
                                }
                                if let Some(t) = t {
                                    l.push_str(&format!(" wtime {} btime {}", t, t));
                                }
                                if let Some(i) = inc {
                                    l.push_str(&format!(" winc {} binc {}", i, i));
                                }
                                if let Some(d) = d {
                                    l.push_str(&format!(" depth {}", d));
                                }
                                if let Some(m) = mt {
                                    l.push_str(&format!(" movetime {}", m));
                                }
                                if ignored {
                                    l.push_str(" nodes 5000 mate 3 movestogo 20 ponder");
                                }
                                if inf {
                                    l.push_str(" infinite");
                                }
                                let needs_stop = d.is_none() && mt.is_none() && t.is_none();
                                out.push(GoSpec { line: l, needs_stop, searchmoves: sm.clone() });
                            }
                        }
                    }
                }
            }
        }
    }
    out.push(GoSpec { line: "go winc 100 binc 100".into(), needs_stop: true, searchmoves: vec![] });
    out
}

struct C07Stats {
    gos: AtomicU64,
    sessions: AtomicU64,
}

/// judge one answered `go`
fn c07_judge(rep: &Reporter, root: &Pos, root_tag: &str, pos_line: &str, spec: &GoSpec, clock: &str, out: &SearchOut, late_best: usize, ctx: Value) {
    let legal: Vec<String> = root.legal().iter().map(|m| m.uci()).collect();
    let case = |extra: Value| json!({"kind": "go", "position": pos_line, "go": spec.line, "clock": clock, "context": ctx, "detail": extra});
    rep.sample(|| json!({"position": pos_line, "go": spec.line, "clock": clock, "context": ctx, "answered_bestmove": out.best, "bestmove_messages": out.n_best + late_best}));
    // signature features that identify the three known classes on the pinned tree
    let feature = || -> String {
        if root_tag.starts_with("fullmove_2") || root_tag.starts_with("fullmove_3") {
            format!("{}", root_tag)
        } else if root_tag == "root_occurred_three_times" {
            "root_already_threefold".to_string()
        } else {
            "ordinary_root".to_string()
        }
    };
    if let Some(pr) = &out.problem {
        rep.report(format!("no_bestmove:{}:{}", feature(), short(pr)), case(json!({"problem": pr})));
        return;
    }
    if out.n_best + late_best != 1 {
        rep.report(format!("bestmove_count:{}", out.n_best + late_best), case(json!({"during_go": out.n_best, "late": late_best})));
        return;
    }
    if legal.is_empty() {
        if out.best.is_some() {
            rep.report("move_announced_in_position_without_legal_moves".to_string(), case(json!({"bestmove": out.best})));
        }
        return;
    }
    let sm_legal: Vec<&String> = spec.searchmoves.iter().filter(|m| legal.contains(m)).collect();
    if !spec.searchmoves.is_empty() && sm_legal.is_empty() {
        // searchmoves that contain no legal move: unspecified (DESIGN §6.5) — only "exactly one
        // bestmove, and if it is a move, a legal one"
        if let Some(b) = &out.best {
            if !legal.contains(b) {
                rep.report(format!("illegal_bestmove:{}", feature()), case(json!({"bestmove": b})));
            }
        }
        return;
    }
    match &out.best {
        None => {
            let budget = if spec.line.contains("movetime 0") {
                "movetime0"
            } else if spec.line.contains("movetime 1 ") || spec.line.ends_with("movetime 1") {
                "movetime1"
            } else if spec.line.contains("wtime") {
                "clock_budget"
            } else if spec.line.contains("movetime") {
                "movetime"
            } else {
                "no_time_limit"
            };
            rep.report(format!("null_bestmove:{}:{}", feature(), budget), case(json!({"legal_moves": legal.len()})));
        }
        Some(b) => {
            if !legal.contains(b) {
                rep.report(format!("illegal_bestmove:{}", feature()), case(json!({"bestmove": b})));
            } else if !sm_legal.is_empty() && !sm_legal.contains(&b) {
                rep.report("bestmove_not_in_searchmoves".to_string(), case(json!({"bestmove": b, "searchmoves": spec.searchmoves})));
            }
        }
    }
}

fn plan_for(spec: &GoSpec, rate_ns: u64, n2: u64, stop_at: u64) -> (Plan, u64) {
    if spec.needs_stop {
        (Plan { poll: Some((1, n2)), clock: Clock::Rate { ns_per_node: rate_ns, jumps: vec![] }, gates: vec![stop_at] }, stop_at)
    } else {
        (Plan { poll: None, clock: Clock::Rate { ns_per_node: rate_ns, jumps: vec![] }, gates: vec![] }, 0)
    }
}

pub fn run_c07(tier: Tier) -> i32 {
    let started = Instant::now();
    let rep = Reporter::new("C07");
    let stats = C07Stats { gos: Default::default(), sessions: Default::default() };
    let positions = c07_positions(tier);
    let mut fams = Vec::new();
    // ---- (1) go-parameter cross product, one go per fresh engine
    let t0 = Instant::now();
    let rates: &[(u64, &str)] = if tier == Tier::Quick { &[(1_000_000, "1ms/node"), (1_000_000_000, "1s/node")] } else { &[(1_000, "1us/node"), (1_000_000, "1ms/node"), (1_000_000_000, "1s/node")] };
    let n_full = if tier == Tier::Quick { 3 } else { positions.len() };
    for (pi, (base, moves, tag)) in positions.iter().enumerate() {
        let pos_line = position_line(base, moves);
        let mut root = base.clone();
        for u in moves {
            let m = root.find_legal_uci(u).unwrap();
            root = root.make(&m);
        }
        let specs = c07_go_specs(&root, tier == Tier::Thorough);
        // positions beyond the first n_full get a slice of the cross product
        let specs: Vec<GoSpec> = if pi < n_full { specs } else { specs.into_iter().step_by(17).collect() };
        let n2 = {
            let (n, o) = dry_run(&pos_line, "go depth 2");
            if o.problem.is_some() {
                48_000 // iterations 1-2 never cost more in the real build: a safe lower bound for polls
            } else {
                n
            }
        };
        let jobs: Vec<(usize, usize)> = (0..specs.len()).flat_map(|i| (0..rates.len()).map(move |r| (i, r))).collect();
        par_map_fine(&jobs, |&(i, r)| {
            let spec = &specs[i];
            let (rate, rname) = rates[r];
            if spec.needs_stop && r > 0 {
                return; // no clock involved
            }
            let stops: Vec<u64> = if spec.needs_stop { vec![START_GATE, 1, 2, 7, 40, 300] } else { vec![0] }; // START_GATE: the stop is waiting when the search starts
            for stop_at in stops {
                stats.gos.fetch_add(1, Ordering::Relaxed);
                let mut s = Session::new(false);
                s.line("ucinewgame");
                s.line(&pos_line);
                let (plan, st) = plan_for(spec, rate, n2, stop_at);
                let out = run_go(&mut s, &spec.line, plan, &|kk| if kk == st { vec![GateAction::Stop] } else { vec![] });
                let (late, _) = s.quit();
                let late_best = late.iter().filter(|e| matches!(e, Ev::Best(..))).count();
                c07_judge(&rep, &root, tag, &pos_line, spec, rname, &out, late_best, json!({"stop_at_poll": stop_at, "single_go_on_fresh_engine": true}));
            }
        });
    }
    fams.push(json!({"family": "go-parameter cross product x clock rates, one go per fresh engine", "positions": positions.len(), "gos": stats.gos.load(Ordering::Relaxed), "secs": t0.elapsed().as_secs_f64()}));
    // ---- (2) sessions of several position/go cycles on one engine
    let t0 = Instant::now();
    let cyc_pos: Vec<usize> = if tier == Tier::Quick { vec![0, 1, 2, 3, 5] } else { (0..positions.len().min(9)).collect() };
    let cyc_gos = ["go depth 2", "go movetime 50", "go wtime 15000 btime 15000 winc 100 binc 100", "go infinite", "go depth 1 searchmoves a1a1"];
    let len = if tier == Tier::Quick { 2 } else { 3 };
    let mut sessions: Vec<Vec<(usize, usize, bool)>> = vec![vec![]];
    for _ in 0..len {
        let mut next = Vec::new();
        for s in &sessions {
            for &p in &cyc_pos {
                for g in 0..cyc_gos.len() {
                    for newgame in [false, true] {
                        if tier == Tier::Quick && newgame && (p + g) % 3 != 0 {
                            continue;
                        }
                        let mut t = s.clone();
                        t.push((p, g, newgame));
                        next.push(t);
                    }
                }
            }
        }
        sessions = next;
    }
    // go twice on the same position without a position command in between
    let before = stats.gos.load(Ordering::Relaxed);
    par_map_fine(&sessions, |sess_spec| {
        stats.sessions.fetch_add(1, Ordering::Relaxed);
        let mut s = Session::new(false);
        let mut last_p = usize::MAX;
        for (ci, &(p, g, newgame)) in sess_spec.iter().enumerate() {
            let (base, moves, tag) = &positions[p];
            let pos_line = position_line(base, moves);
            let mut root = base.clone();
            for u in moves {
                let m = root.find_legal_uci(u).unwrap();
                root = root.make(&m);
            }
            if newgame {
                s.line("ucinewgame");
            }
            if p != last_p {
                s.line(&pos_line); // same position twice in a row: second go without position
            }
            last_p = p;
            let spec = GoSpec { line: cyc_gos[g].to_string(), needs_stop: cyc_gos[g] == "go infinite", searchmoves: if g == 4 { vec!["a1a1".into()] } else { vec![] } };
            stats.gos.fetch_add(1, Ordering::Relaxed);
            // within a session iteration boundaries move; stopping after a generous node count keeps
            // the interruption reachable in the real build (iterations 1-2 < 48k nodes)
            let plan = if spec.needs_stop { Plan { poll: Some((500, 48_000)), clock: Clock::Rate { ns_per_node: 1_000_000, jumps: vec![] }, gates: vec![1] } } else { Plan::virtual_rate(1_000_000) };
            let out = run_go(&mut s, &spec.line, plan, &|kk| if kk == 1 { vec![GateAction::Stop] } else { vec![] });
            let late_best = s.settle(Duration::from_millis(1)).iter().filter(|e| matches!(e, Ev::Best(..))).count();
            c07_judge(&rep, &root, tag, &pos_line, &spec, "1ms/node", &out, late_best, json!({"session": sess_spec.iter().map(|(p, g, n)| json!({"position": positions[*p].2, "go": cyc_gos[*g], "ucinewgame_before": n})).collect::<Vec<_>>(), "cycle_index": ci}));
            if out.problem.is_some() {
                break;
            }
        }
        s.quit();
    });
    fams.push(json!({"family": format!("sessions of {} position/go cycles on one engine", len), "sessions": sessions.len(), "gos": stats.gos.load(Ordering::Relaxed) - before, "secs": t0.elapsed().as_secs_f64()}));
    // ---- (2b) an earlier search on the same engine must not leak into a later one: after go depth
    // 3 (and again after a deeper or shallower one), every single legal move as searchmoves
    let t0 = Instant::now();
    let before_sm = stats.gos.load(Ordering::Relaxed);
    let sm_positions: Vec<usize> = if tier == Tier::Quick { vec![0, 1, 7, 8] } else { (0..positions.len()).collect() };
    par_map_fine(&sm_positions, |&pi| {
        let (base, moves, tag) = &positions[pi];
        if tag.starts_with("fullmove_") {
            return;
        }
        let pos_line = position_line(base, moves);
        let mut root = base.clone();
        for u in moves {
            let m = root.find_legal_uci(u).unwrap();
            root = root.make(&m);
        }
        let legal: Vec<String> = root.legal().iter().map(|m| m.uci()).collect();
        for (first, second_depth, reposition, newgame) in [("go depth 3", 2, true, false), ("go depth 3", 3, false, false), ("go depth 2", 3, true, false), ("go depth 3", 1, true, true)] {
            let mut s = Session::new(false);
            s.line(&pos_line);
            let _ = run_go(&mut s, first, Plan::virtual_rate(1_000), &none);
            for m in &legal {
                stats.gos.fetch_add(1, Ordering::Relaxed);
                if newgame {
                    s.line("ucinewgame");
                }
                if reposition {
                    s.line(&pos_line);
                }
                let spec = GoSpec { line: format!("go depth {} searchmoves {}", second_depth, m), needs_stop: false, searchmoves: vec![m.clone()] };
                let out = run_go(&mut s, &spec.line, Plan::virtual_rate(1_000), &none);
                c07_judge(&rep, &root, tag, &pos_line, &spec, "1us/node", &out, 0, json!({"earlier_search_on_this_engine": first, "position_command_repeated": reposition, "ucinewgame_before": newgame}));
                if out.problem.is_some() {
                    break;
                }
            }
            // the same move named twice, and around another one
            for m in legal.iter().step_by(5).take(4) {
                let other = legal.iter().find(|x| *x != m).cloned().unwrap_or_else(|| m.clone());
                for (line, sm) in [(format!("go depth {} searchmoves {} {}", second_depth, m, m), vec![m.clone()]), (format!("go depth {} searchmoves {} {} {}", second_depth, m, other, m), vec![m.clone(), other.clone()])] {
                    stats.gos.fetch_add(1, Ordering::Relaxed);
                    let spec = GoSpec { line, needs_stop: false, searchmoves: sm };
                    let out = run_go(&mut s, &spec.line, Plan::virtual_rate(1_000), &none);
                    c07_judge(&rep, &root, tag, &pos_line, &spec, "1us/node", &out, 0, json!({"earlier_search_on_this_engine": first, "position_command_repeated": reposition, "ucinewgame_before": newgame, "repeated_searchmoves_token": true}));
                }
            }
            s.quit();
        }
    });
    fams.push(json!({"family": "every legal move as searchmoves after an earlier search of the same position on the same engine", "positions": sm_positions.len(), "gos": stats.gos.load(Ordering::Relaxed) - before_sm, "secs": t0.elapsed().as_secs_f64()}));
    // ---- (2b0) roots in which the right promotion piece is not the queen: plain searches and every
    // legal move (all four promotion letters among them) as searchmoves
    let t0 = Instant::now();
    let before_up = stats.gos.load(Ordering::Relaxed);
    let up_roots = underpromotion_roots(if tier == Tier::Quick { 12 } else { 400 });
    let up_jobs: Vec<(usize, bool)> = (0..up_roots.len()).flat_map(|r| [(r, false), (r, true)]).collect();
    par_map_fine(&up_jobs, |&(r, flip)| {
        let root = if flip { up_roots[r].0.flip() } else { up_roots[r].0.clone() };
        let pos_line = position_line(&root, &[]);
        let legal: Vec<String> = root.legal().iter().map(|m| m.uci()).collect();
        let mut s = Session::new(false);
        s.line(&pos_line);
        let mut specs: Vec<GoSpec> = (1..=3).map(|d| GoSpec { line: format!("go depth {}", d), needs_stop: false, searchmoves: vec![] }).collect();
        for m in &legal {
            specs.push(GoSpec { line: format!("go depth 2 searchmoves {}", m), needs_stop: false, searchmoves: vec![m.clone()] });
        }
        // the same move named more than once (a GUI may repeat a token; the set is what counts): twice,
        // around another move, and more often than the position has moves
        for m in legal.iter().take(3) {
            let other = legal.iter().find(|x| *x != m).cloned().unwrap_or_else(|| m.clone());
            specs.push(GoSpec { line: format!("go depth 2 searchmoves {} {}", m, m), needs_stop: false, searchmoves: vec![m.clone()] });
            specs.push(GoSpec { line: format!("go depth 2 searchmoves {} {} {}", m, other, m), needs_stop: false, searchmoves: vec![m.clone(), other.clone()] });
            specs.push(GoSpec { line: format!("go depth 1 searchmoves {}", vec![m.as_str(); 80].join(" ")), needs_stop: false, searchmoves: vec![m.clone()] });
        }
        for spec in &specs {
            stats.gos.fetch_add(1, Ordering::Relaxed);
            let out = run_go(&mut s, &spec.line, Plan::virtual_rate(1_000), &none);
            c07_judge(&rep, &root, "underpromotion", &pos_line, spec, "1us/node", &out, 0, json!({"root_class": up_roots[r].1}));
            if out.problem.is_some() {
                break;
            }
        }
        s.quit();
    });
    fams.push(json!({"family": "roots in which the right promotion piece is not the queen: go depth 1..3 and every legal move as searchmoves", "roots_incl_flips": up_jobs.len(), "gos": stats.gos.load(Ordering::Relaxed) - before_up, "secs": t0.elapsed().as_secs_f64()}));
    // ---- (2b') the game goes on along the engine's own line: position P / go depth d1, then
    // `position P moves <the first one or two moves of the line the engine announced>` and, as the
    // FIRST go after that, every legal move as searchmoves under shallow and zero-budget limits. The
    // continuation is taken from the engine's output, so whatever it keeps for "the expected reply
    // was played" is in force.
    let t0 = Instant::now();
    let before_cont = stats.gos.load(Ordering::Relaxed);
    let d1s: &[usize] = if tier == Tier::Quick { &[3, 4] } else { &[3, 4, 5] };
    let cont_jobs: Vec<(usize, usize, usize)> = sm_positions.iter().flat_map(|&pi| d1s.iter().flat_map(move |&d1| [1usize, 2].into_iter().map(move |c| (pi, d1, c)))).collect();
    par_map_fine(&cont_jobs, |&(pi, d1, c)| {
        let (base, moves, tag) = &positions[pi];
        if tag.starts_with("fullmove_") || *tag == "root_occurred_three_times" {
            return;
        }
        let pos_line = position_line(base, moves);
        let first_go = format!("go depth {}", d1);
        let first = {
            let mut s = Session::new(false);
            s.line(&pos_line);
            let o = run_go(&mut s, &first_go, Plan::virtual_rate(1_000), &none);
            s.quit();
            o
        };
        if first.problem.is_some() || first.pv.len() < c {
            return;
        }
        let mut moves2 = moves.clone();
        moves2.extend(first.pv[..c].iter().cloned());
        let mut root2 = base.clone();
        for u in &moves2 {
            match root2.find_legal_uci(u) {
                Some(m) => root2 = root2.make(&m),
                None => return, // an illegal PV is C08's business
            }
        }
        let legal2: Vec<String> = root2.legal().iter().map(|m| m.uci()).collect();
        if legal2.is_empty() {
            return;
        }
        let pos_line2 = position_line(base, &moves2);
        let take = if tier == Tier::Quick { 6 } else if d1 >= 5 { 8 } else { legal2.len() };
        let step = (legal2.len() / take).max(1);
        let picks: Vec<&String> = legal2.iter().step_by(step).take(take).collect();
        for x in picks {
            for variant in ["go depth 1", "go depth 2", "go wtime 60000 btime 60000 winc 0 binc 0", "go movetime 0"] {
                if variant == "go depth 2" && d1 < 4 && tier == Tier::Quick {
                    continue;
                }
                stats.gos.fetch_add(1, Ordering::Relaxed);
                let mut s = Session::new(false);
                s.line(&pos_line);
                let _ = run_go(&mut s, &first_go, Plan::virtual_rate(1_000), &none);
                s.line(&pos_line2);
                let spec = GoSpec { line: format!("{} searchmoves {}", variant, x), needs_stop: false, searchmoves: vec![x.clone()] };
                let out = run_go(&mut s, &spec.line, Plan::virtual_rate(1_000), &none);
                let (late, _) = s.quit();
                let late_best = late.iter().filter(|e| matches!(e, Ev::Best(..))).count();
                c07_judge(&rep, &root2, "continuation", &pos_line2, &spec, "1us/node", &out, late_best, json!({"prefix": [pos_line, first_go], "continuation_plies_from_the_engines_own_line": c}));
            }
        }
    });
    // ---- (2b'') impostor continuations: the position command ENDS in the reply the engine expected,
    // but after a different move of ours (a sibling line), or from the same men with other clocks —
    // "the expected reply was played" is not "the expected position was reached"
    let t1 = Instant::now();
    let before_imp = stats.gos.load(Ordering::Relaxed);
    let imp_jobs: Vec<(usize, usize)> = sm_positions.iter().flat_map(|&pi| d1s.iter().map(move |&d1| (pi, d1))).collect();
    par_map_fine(&imp_jobs, |&(pi, d1)| {
        let (base, moves, tag) = &positions[pi];
        if tag.starts_with("fullmove_") || *tag == "root_occurred_three_times" {
            return;
        }
        let pos_line = position_line(base, moves);
        let first_go = format!("go depth {}", d1);
        let first = {
            let mut s = Session::new(false);
            s.line(&pos_line);
            let o = run_go(&mut s, &first_go, Plan::virtual_rate(1_000), &none);
            s.quit();
            o
        };
        if first.problem.is_some() || first.pv.len() < 3 {
            return;
        }
        let mut root = base.clone();
        for u in moves {
            root = root.make(&root.find_legal_uci(u).unwrap());
        }
        let (s0, o0) = (first.pv[0].clone(), first.pv[1].clone());
        // sibling first moves after which the expected reply is still legal
        let mut siblings: Vec<String> = Vec::new();
        for a in root.legal() {
            if a.uci() != s0 {
                let q = root.make(&a);
                if q.find_legal_uci(&o0).is_some() && q.make(&q.find_legal_uci(&o0).unwrap()).has_legal_move() {
                    siblings.push(a.uci());
                }
            }
        }
        let take = if tier == Tier::Quick { 8 } else { siblings.len() };
        let step = (siblings.len() / take.max(1)).max(1);
        for a in siblings.iter().step_by(step).take(take) {
            let mut moves2 = moves.clone();
            moves2.push(a.clone());
            moves2.push(o0.clone());
            let mut root2 = base.clone();
            for u in &moves2 {
                root2 = root2.make(&root2.find_legal_uci(u).unwrap());
            }
            let pos_line2 = position_line(base, &moves2);
            for variant in ["go movetime 0", "go wtime 60000 btime 60000 winc 0 binc 0", "go depth 1", "go depth 2"] {
                stats.gos.fetch_add(1, Ordering::Relaxed);
                let mut s = Session::new(false);
                s.line(&pos_line);
                let _ = run_go(&mut s, &first_go, Plan::virtual_rate(1_000), &none);
                s.line(&pos_line2);
                let spec = GoSpec { line: variant.to_string(), needs_stop: false, searchmoves: vec![] };
                let out = run_go(&mut s, &spec.line, Plan::virtual_rate(1_000), &none);
                let (late, _) = s.quit();
                let late_best = late.iter().filter(|e| matches!(e, Ev::Best(..))).count();
                c07_judge(&rep, &root2, "impostor_continuation", &pos_line2, &spec, "1us/node", &out, late_best, json!({"prefix": [pos_line, first_go], "the_command_ends_in_the_expected_reply_but_after_another_move": a}));
            }
        }
    });
    fams.push(json!({"family": "impostor continuations: position ends in the expected reply after a sibling first move; zero-budget and shallow go", "cases": imp_jobs.len(), "gos": stats.gos.load(Ordering::Relaxed) - before_imp, "secs": t1.elapsed().as_secs_f64()}));
    fams.push(json!({"family": "first go after the game followed the engine's own line (1 or 2 plies of its PV): every legal move as searchmoves, shallow and zero budget", "cases": cont_jobs.len(), "gos": stats.gos.load(Ordering::Relaxed) - before_cont, "secs": t0.elapsed().as_secs_f64()}));
    // ---- (2e) whole games on one engine: the position command grows by the engine's own answer,
    // the go command cycles through limits (zero budgets included); every answer is judged
    let t0 = Instant::now();
    let before_games = stats.gos.load(Ordering::Relaxed);
    let game_gos: [&[&str]; 3] = [&["go depth 2", "go movetime 0", "go wtime 1000 btime 1000 winc 0 binc 0", "go depth 1"], &["go movetime 0"], &["go depth 3", "go wtime 0 btime 0", "go depth 1 searchmoves a1a1", "go movetime 1"]];
    let game_jobs: Vec<(usize, usize)> = [0usize, 1, 7, 9].into_iter().flat_map(|pi| (0..game_gos.len()).map(move |g| (pi, g))).collect();
    par_map_fine(&game_jobs, |&(pi, g)| {
        let (base, moves0, tag) = &positions[pi];
        let mut moves = moves0.clone();
        let mut root = base.clone();
        for u in &moves {
            let m = root.find_legal_uci(u).unwrap();
            root = root.make(&m);
        }
        let mut line = vec![root.clone()];
        let mut s = Session::new(false);
        let plies = if tier == Tier::Quick { 160 } else { 600 };
        for ply in 0..plies {
            if !root.has_legal_move() || refchess::search::RefSearch::occurrences(&line) >= 3 || root.half >= 90 {
                break;
            }
            let go = game_gos[g][ply % game_gos[g].len()];
            let pos_line = position_line(base, &moves);
            s.line(&pos_line);
            let spec = GoSpec { line: go.to_string(), needs_stop: false, searchmoves: if go.contains("searchmoves") { vec!["a1a1".into()] } else { vec![] } };
            stats.gos.fetch_add(1, Ordering::Relaxed);
            let out = run_go(&mut s, go, Plan::virtual_rate(1_000_000), &none);
            let late_best = s.settle(Duration::from_millis(1)).iter().filter(|e| matches!(e, Ev::Best(..))).count();
            c07_judge(&rep, &root, tag, &pos_line, &spec, "1ms/node", &out, late_best, json!({"whole_game_on_one_engine": true, "ply_of_the_game": ply, "go_cycle": game_gos[g]}));
            let m = match out.best.as_ref().and_then(|b| root.find_legal_uci(b)) {
                Some(m) => m,
                None => break,
            };
            moves.push(m.uci());
            root = root.make(&m);
            line.push(root.clone());
        }
        s.quit();
    });
    fams.push(json!({"family": "whole games played by the engine against itself on one instance, go limits cycling (zero budgets included)", "games": game_jobs.len(), "gos": stats.gos.load(Ordering::Relaxed) - before_games, "secs": t0.elapsed().as_secs_f64()}));
    // ---- (2f) roots without a legal move, of every shape: mates and stalemates bucketed by how many
    // PSEUDO-legal moves the move-less side still has (0, 1, 2, 3+: a boxed king with one attacked
    // flight, pinned pieces, blocked pawns), under every kind of limit. The answer is the null move.
    let t0 = Instant::now();
    let before_term = stats.gos.load(Ordering::Relaxed);
    let mut buckets: std::collections::BTreeMap<(bool, usize), Vec<Pos>> = std::collections::BTreeMap::new();
    {
        let per_bucket = if tier == Tier::Quick { 6 } else { 60 };
        for sig in ["KQk", "KRk", "KPk", "KPPk", "KRkb", "KQkn", "KBPPk", "KNPPk", "KPPPk", "KRPPk", "KQPkp", "KRPkp", "KBPkp"] {
            let fam = crate::families::Material::new(sig);
            let stride = if sig.len() >= 5 { if tier == Tier::Quick { 2_003 } else { 101 } } else if sig.len() == 4 { 7 } else { 1 };
            let found = std::sync::Mutex::new(Vec::new());
            crate::families::for_family(&crate::families::Strided(&fam, stride), &|p| {
                if !p.has_legal_move() {
                    found.lock().unwrap().push(p.clone());
                }
            });
            let mut f = found.into_inner().unwrap();
            f.sort_by_key(|p| p.key());
            for p in f {
                let k = (p.in_check(p.stm), p.pseudo_legal().len().min(3));
                let b = buckets.entry(k).or_default();
                // per signature at most per_bucket/2 so that several signatures contribute
                if b.len() < per_bucket && b.iter().filter(|q| q.piece_count() == p.piece_count()).count() < (per_bucket / 2).max(2) {
                    b.push(p);
                }
            }
        }
    }
    // boxed corner king: K h8, the seven squares around it each empty / own pawn, bishop, knight /
    // enemy king, knight, bishop (7^7 placements); this is where 0 and 1 pseudo-legal moves live
    {
        let per_bucket = if tier == Tier::Quick { 6 } else { 60 };
        let sqs: [u8; 7] = [6, 14, 15, 5, 13, 22, 23]; // g8 g7 h7 f8 f7 g6 h6
        let opts: [u8; 7] = [EMPTY, pc(WHITE, PAWN), pc(WHITE, BISHOP), pc(WHITE, KNIGHT), pc(BLACK, KING), pc(BLACK, KNIGHT), pc(BLACK, BISHOP)];
        let found = std::sync::Mutex::new(Vec::new());
        par_for(7u64.pow(7), 4096, |mut i| {
            let mut p = Pos::empty();
            p.board[7] = pc(WHITE, KING);
            let mut kings = 0;
            for &sq in &sqs {
                let o = opts[(i % 7) as usize];
                i /= 7;
                if o == pc(WHITE, PAWN) && sq < 8 {
                    return;
                }
                if o == pc(BLACK, KING) {
                    kings += 1;
                }
                p.board[sq as usize] = o;
            }
            if kings > 1 {
                return;
            }
            if kings == 0 {
                p.board[56] = pc(BLACK, KING);
            }
            p.stm = WHITE;
            if p.is_legal_position() && !p.has_legal_move() && p.pseudo_legal().len() <= 2 {
                found.lock().unwrap().push(p);
            }
        });
        let mut f = found.into_inner().unwrap();
        f.sort_by_key(|p| p.key());
        let step = (f.len() / 4000).max(1);
        for p in f.into_iter().step_by(step) {
            let k = (p.in_check(p.stm), p.pseudo_legal().len().min(3));
            let b = buckets.entry(k).or_default();
            if b.len() < 2 * per_bucket {
                b.push(p);
            }
        }
    }
    let term_roots: Vec<(Pos, bool, usize)> = buckets.iter().flat_map(|((mate, n), v)| v.iter().flat_map(move |p| [(p.clone(), *mate, *n), (p.flip(), *mate, *n)])).collect();
    let term_gos = ["go depth 1", "go depth 3", "go movetime 0", "go movetime 200", "go wtime 60000 btime 60000 winc 1000 binc 1000", "go wtime 60000 btime 60000 winc 0 binc 0", "go wtime 1 btime 1", "go infinite", "go ponder depth 2", "go depth 2 searchmoves a1a1", "go nodes 10", "go mate 2"];
    let term_jobs: Vec<(usize, usize)> = (0..term_roots.len()).flat_map(|i| (0..term_gos.len()).map(move |g| (i, g))).collect();
    par_map_fine(&term_jobs, |&(i, g)| {
        let (root, mate, n_pseudo) = &term_roots[i];
        let pos_line = position_line(root, &[]);
        let go = term_gos[g];
        let spec = GoSpec { line: go.to_string(), needs_stop: go == "go infinite", searchmoves: if go.contains("searchmoves") { vec!["a1a1".into()] } else { vec![] } };
        stats.gos.fetch_add(1, Ordering::Relaxed);
        let mut s = Session::new(false);
        s.line(&pos_line);
        let (plan, st) = plan_for(&spec, 1_000_000, 48_000, 1);
        let out = run_go(&mut s, &spec.line, plan, &|kk| if kk == st { vec![GateAction::Stop] } else { vec![] });
        let (late, _) = s.quit();
        let late_best = late.iter().filter(|e| matches!(e, Ev::Best(..))).count();
        c07_judge(&rep, root, "terminal_root", &pos_line, &spec, "1ms/node", &out, late_best, json!({"root_is": if *mate { "checkmate" } else { "stalemate" }, "pseudo_legal_moves_of_the_move_less_side": n_pseudo, "single_go_on_fresh_engine": true, "stop_at_poll": 1}));
    });
    fams.push(json!({"family": "roots without a legal move, bucketed by mate/stalemate x number of pseudo-legal moves (0,1,2,3+), x 12 go forms", "buckets": buckets.iter().map(|((m, n), v)| json!({"mate": m, "pseudo_legal_moves": n, "positions": v.len()})).collect::<Vec<_>>(), "roots_incl_flips": term_roots.len(), "gos": stats.gos.load(Ordering::Relaxed) - before_term, "secs": t0.elapsed().as_secs_f64()}));
    for k in [(false, 1usize), (true, 1), (false, 2), (true, 3)] {
        if buckets.get(&k).map_or(true, |v| v.is_empty()) {
            rep.machinery(format!("vacuous: no move-less root with mate={} and {} pseudo-legal moves", k.0, k.1));
        }
    }
    // ---- (2g) neighbouring position commands and rejected position commands (shared with C13, C16)
    let t0 = Instant::now();
    let n_nb = position_command_sessions(&rep, tier, "C07", &AtomicU64::new(0));
    stats.gos.fetch_add(n_nb, Ordering::Relaxed);
    fams.push(json!({"family": "position A, go, position B (one token different), go — and position A, a rejected position command, go", "judged_searches": n_nb, "secs": t0.elapsed().as_secs_f64()}));
    // ---- (2c) in-search message alphabet: message X first visible at poll k1, stop at poll k2 >= k1;
    // and stray messages while idle before the go (they must be ignored)
    let t0 = Instant::now();
    let before_msg = stats.gos.load(Ordering::Relaxed);
    {
        let msgs: Vec<GateAction> = vec![GateAction::IsReady, GateAction::Debug(true), GateAction::Debug(false), GateAction::NewGame, GateAction::PonderHit];
        let polls: Vec<u64> = if tier == Tier::Quick { vec![1, 3, 20] } else { vec![1, 2, 3, 8, 20, 100] };
        let mut jobs: Vec<(usize, usize, u64, u64, &str)> = Vec::new();
        for pi in [0usize, 1, 8] {
            for mi in 0..msgs.len() {
                for &k1 in &polls {
                    for &k2 in &polls {
                        if k2 >= k1 {
                            for go in ["go infinite", "go depth 4", "go"] {
                                jobs.push((pi, mi, k1, k2, go));
                            }
                        }
                    }
                }
            }
        }
        par_map_fine(&jobs, |&(pi, mi, k1, k2, go)| {
            let (base, moves, tag) = &positions[pi];
            let pos_line = position_line(base, moves);
            let mut root = base.clone();
            for u in moves {
                let m = root.find_legal_uci(u).unwrap();
                root = root.make(&m);
            }
            let n2 = dry_run(&pos_line, "go depth 2").0;
            stats.gos.fetch_add(1, Ordering::Relaxed);
            let mut s = Session::new(false);
            // stray messages while idle
            s.line("stop");
            s.line("ponderhit");
            s.line(&pos_line);
            s.line("stop");
            let msg = msgs[mi].clone();
            let mut gates = vec![k1, k2];
            gates.dedup();
            let plan = Plan { poll: Some((1, n2)), clock: Clock::Rate { ns_per_node: 1_000, jumps: vec![] }, gates };
            let m2 = msg.clone();
            let out = run_go(&mut s, go, plan, &move |kk| {
                let mut a = Vec::new();
                if kk == k1 {
                    a.push(m2.clone());
                }
                if kk == k2 {
                    a.push(GateAction::Stop);
                }
                a
            });
            let late_best = s.settle(Duration::from_millis(1)).iter().filter(|e| matches!(e, Ev::Best(..))).count();
            let spec = GoSpec { line: go.to_string(), needs_stop: go != "go depth 4", searchmoves: vec![] };
            c07_judge(&rep, &root, tag, &pos_line, &spec, "1us/node", &out, late_best, json!({"message_during_search": format!("{:?}", msg), "message_at_poll": k1, "stop_at_poll": k2, "stray_stop_and_ponderhit_while_idle": true}));
            if matches!(msg, GateAction::IsReady) && out.obs.readyoks != 1 && out.obs.parked_at.contains(&k1) {
                rep.report("isready_during_search_not_answered_once".to_string(), json!({"kind": "go", "position": pos_line, "go": go, "readyoks": out.obs.readyoks}));
            }
            // and the engine still works afterwards
            let again = run_go(&mut s, "go depth 1", Plan::virtual_rate(1_000), &none);
            let spec1 = GoSpec { line: "go depth 1".into(), needs_stop: false, searchmoves: vec![] };
            c07_judge(&rep, &root, tag, &pos_line, &spec1, "1us/node", &again, 0, json!({"after_message_during_search": format!("{:?}", msg)}));
            s.quit();
        });
    }
    fams.push(json!({"family": "in-search messages (isready, debug on/off, ucinewgame, ponderhit) first visible at poll k1, stop at poll k2 >= k1; stray stop/ponderhit while idle", "gos": stats.gos.load(Ordering::Relaxed) - before_msg, "secs": t0.elapsed().as_secs_f64()}));
    // ---- (2d) long sessions: thousands of cheap cycles on one engine under the product's OWN poll
    // rule (unscaled plan), so that state accumulated over a whole game (node counters, killer
    // table ageing, stored PV) is carried across several poll boundaries
    let t0 = Instant::now();
    let before_long = stats.gos.load(Ordering::Relaxed);
    {
        let cycles: usize = if tier == Tier::Quick { 7_000 } else { 25_000 };
        let variants: Vec<(usize, bool)> = vec![(0, false), (1, false), (2, true)];
        par_map_fine(&variants, |&(v, with_newgame)| {
            let mut s = Session::new(false);
            let long_pos = [0usize, 1, 8];
            let gos = ["go movetime 0", "go wtime 60000 btime 60000 winc 0 binc 0", "go depth 1", "go movetime 1"];
            // warm-up: a search long enough to poll for real
            s.line(&position_line(&positions[1].0, &positions[1].1));
            let warm = run_go(&mut s, "go depth 5", Plan::virtual_rate(10), &none);
            if warm.problem.is_some() {
                rep.report("no_bestmove:long_session_warm_up".to_string(), json!({"kind": "go", "position": "kiwipete", "go": "go depth 5", "problem": warm.problem}));
                return;
            }
            for c in 0..cycles {
                let pi = long_pos[(c + v) % long_pos.len()];
                let (base, moves, tag) = &positions[pi];
                let pos_line = position_line(base, moves);
                let mut root = base.clone();
                for u in moves {
                    let m = root.find_legal_uci(u).unwrap();
                    root = root.make(&m);
                }
                if with_newgame && c % 1000 == 999 {
                    s.line("ucinewgame");
                }
                s.line(&pos_line);
                let go = gos[(c / 3 + v) % gos.len()];
                let spec = GoSpec { line: go.to_string(), needs_stop: false, searchmoves: vec![] };
                stats.gos.fetch_add(1, Ordering::Relaxed);
                let out = run_go(&mut s, go, Plan::virtual_rate(1_000_000), &none);
                c07_judge(&rep, &root, tag, &pos_line, &spec, "1ms/node", &out, 0, json!({"long_session_cycle": c, "warm_up": "kiwipete go depth 5", "cycles": cycles, "ucinewgame_every_1000": with_newgame}));
                if out.problem.is_some() || out.best.is_none() {
                    break; // one report per session is enough
                }
            }
            s.quit();
        });
    }
    fams.push(json!({"family": "long sessions (thousands of zero/tiny-budget cycles after a long warm-up search, product's own poll rule)", "gos": stats.gos.load(Ordering::Relaxed) - before_long, "secs": t0.elapsed().as_secs_f64()}));
    // ---- (3) clock schedules: all jump pairs over the clock reads of a run
    let t0 = Instant::now();
    let mut jump_runs = 0u64;
    for (base, moves, tag) in positions.iter().take(if tier == Tier::Quick { 2 } else { 5 }) {
        let pos_line = position_line(base, moves);
        let mut root = base.clone();
        for u in moves {
            let m = root.find_legal_uci(u).unwrap();
            root = root.make(&m);
        }
        for go in ["go movetime 300 depth 4", "go wtime 9000 btime 9000 winc 50 binc 50 depth 4"] {
            // polls before the end of iteration 2 cannot happen in the real build: keep them out
            let n2 = dry_run(&pos_line, "go depth 2").0;
            // number of clock reads of the unperturbed run
            let reads = {
                let mut s = Session::new(false);
                s.line(&pos_line);
                let o = run_go(&mut s, go, Plan { poll: Some((200, n2)), clock: Clock::ByRead { steps: vec![] }, gates: vec![] }, &none);
                s.quit();
                o.obs.counters.clock_reads
            };
            let cap = if tier == Tier::Quick { 24 } else { 80 };
            let idx: Vec<u64> = if reads <= cap { (1..=reads + 1).collect() } else { (0..cap).map(|i| 1 + i * reads / (cap - 1)).collect() };
            let pairs: Vec<(u64, u64)> = idx.iter().flat_map(|&a| idx.iter().filter(move |&&b| b >= a).map(move |&b| (a, b))).collect();
            jump_runs += pairs.len() as u64;
            let spec = GoSpec { line: go.to_string(), needs_stop: false, searchmoves: vec![] };
            // thresholds the code compares against: move_time/3 at iteration ends, move_time at polls
            let (third, full_t) = if go.contains("movetime") { (Duration::from_millis(101), Duration::from_millis(301)) } else { (Duration::from_millis(34), Duration::from_millis(101)) };
            par_map_fine(&pairs, |&(j1, j2)| {
                stats.gos.fetch_add(1, Ordering::Relaxed);
                let mut s = Session::new(false);
                s.line(&pos_line);
                let plan = Plan { poll: Some((200, n2)), clock: Clock::ByRead { steps: vec![(j1, third), (j2, full_t)] }, gates: vec![] };
                let out = run_go(&mut s, go, plan, &none);
                let (late, _) = s.quit();
                let late_best = late.iter().filter(|e| matches!(e, Ev::Best(..))).count();
                c07_judge(&rep, &root, tag, &pos_line, &spec, &format!("clock crosses budget/3 at read {} and budget at read {}", j1, j2), &out, late_best, json!({"clock_reads_unperturbed": reads}));
            });
        }
    }
    fams.push(json!({"family": "clock schedules: monotone jump pairs (budget/3, budget) over the clock reads", "runs": jump_runs, "secs": t0.elapsed().as_secs_f64()}));
    // ---- (4) the real binary over pipes (guard off): same answers for depth-limited gos
    let t0 = Instant::now();
    let bin_runs = c07_binary(&rep, &positions);
    fams.push(json!({"family": "real inkayaku_engine_app process over pipes (hooks off)", "gos": bin_runs, "secs": t0.elapsed().as_secs_f64()}));

    let mut cov = Coverage::new();
    cov.states = stats.gos.load(Ordering::Relaxed) + bin_runs;
    cov.transitions = cov.states;
    cov.traces_validated = bin_runs;
    cov.set("families", json!(fams));
    cov.samples = vec![json!({"position": "startpos", "go": "go wtime 60000 btime 60000 winc 0 binc 0", "clock": "1ms/node"}), json!({"session": ["startpos: go depth 2", "kiwipete: ucinewgame, go infinite + stop at poll 1"]})];
    cov.assumptions = vec!["UCI handshake: the next position/go is sent only after the previous bestmove".into(), "virtual clock: monotone function of the node count (rates) or of the clock-read index (jump pairs)".into()];
    finish(&rep, tier, cov, started)
}

/// drive the real binary; depth-limited gos must give the same bestmove as the in-process engine
fn c07_binary(rep: &Reporter, positions: &[(Pos, Vec<String>, &'static str)]) -> u64 {
    use std::io::{BufRead, BufReader, Write};
    use std::process::{Command, Stdio};
    let bin = match std::env::var("IVK_ENGINE_BIN") {
        Ok(b) if std::path::Path::new(&b).exists() => b,
        _ => {
            rep.machinery("IVK_ENGINE_BIN not set or missing: real-binary conformance not run");
            return 0;
        }
    };
    let mut runs = 0;
    for (base, moves, tag) in positions.iter().take(9) {
        if tag.starts_with("fullmove_25") || tag.starts_with("fullmove_3") {
            continue;
        }
        let pos_line = position_line(base, moves);
        let mut root = base.clone();
        for u in moves {
            let m = root.find_legal_uci(u).unwrap();
            root = root.make(&m);
        }
        let legal: Vec<String> = root.legal().iter().map(|m| m.uci()).collect();
        let mut child = match Command::new(&bin).stdin(Stdio::piped()).stdout(Stdio::piped()).stderr(Stdio::null()).spawn() {
            Ok(c) => c,
            Err(e) => {
                rep.machinery(format!("cannot start {}: {}", bin, e));
                return runs;
            }
        };
        let mut stdin = child.stdin.take().unwrap();
        let stdout = child.stdout.take().unwrap();
        let (tx, rx) = std::sync::mpsc::channel::<String>();
        std::thread::spawn(move || {
            for l in BufReader::new(stdout).lines().flatten() {
                if tx.send(l).is_err() {
                    break;
                }
            }
        });
        let _ = writeln!(stdin, "uci");
        let _ = writeln!(stdin, "isready");
        let _ = writeln!(stdin, "{}", pos_line);
        for go in ["go depth 1", "go depth 3"] {
            runs += 1;
            let _ = writeln!(stdin, "{}", go);
            let _ = stdin.flush();
            let mut best: Option<String> = None;
            let t0 = Instant::now();
            while t0.elapsed() < Duration::from_secs(30) {
                match rx.recv_timeout(Duration::from_millis(200)) {
                    Ok(l) => {
                        if let Some(rest) = l.strip_prefix("bestmove ") {
                            best = Some(rest.split(' ').next().unwrap_or("").to_string());
                            break;
                        }
                    }
                    Err(_) => {}
                }
            }
            let case = |extra: Value| json!({"kind": "binary", "position": pos_line, "go": go, "detail": extra});
            // in-process answer
            let mut s = Session::new(false);
            s.line(&pos_line);
            let mut inproc = SearchOut::default();
            for g in ["go depth 1", "go depth 3"] {
                inproc = run_go(&mut s, g, Plan::free(), &none);
                if g == go {
                    break;
                }
            }
            s.quit();
            match best {
                None => rep.report("binary:no_bestmove_line".to_string(), case(json!({}))),
                Some(b) => {
                    let b_opt = if b == "0000" { None } else { Some(b.clone()) };
                    if legal.is_empty() {
                        if b_opt.is_some() {
                            rep.report("binary:move_announced_without_legal_moves".to_string(), case(json!({"bestmove": b})));
                        }
                    } else if b_opt.as_ref().map_or(true, |m| !legal.contains(m)) {
                        rep.report(format!("binary:illegal_or_null_bestmove:{}", if *tag == "root_occurred_three_times" { "root_already_threefold" } else { "ordinary_root" }), case(json!({"bestmove": b})));
                    }
                    if b_opt != inproc.best {
                        rep.report("binary_and_in_process_engine_disagree".to_string(), case(json!({"binary": b, "in_process": inproc.best})));
                    }
                }
            }
        }
        let _ = writeln!(stdin, "quit");
        let _ = stdin.flush();
        let t0 = Instant::now();
        loop {
            match child.try_wait() {
                Ok(Some(_)) => break,
                _ => {
                    if t0.elapsed() > Duration::from_secs(10) {
                        let _ = child.kill();
                        rep.report("binary:does_not_exit_on_quit".to_string(), json!({"kind": "binary", "position": pos_line}));
                        break;
                    }
                    std::thread::sleep(Duration::from_millis(10));
                }
            }
        }
    }
    runs
}

pub fn replay_c07(case: &Value) -> i32 {
    let started = Instant::now();
    let rep = Reporter::new("C07");
    let pos_line = case["position"].as_str().unwrap_or("position startpos").to_string();
    let go = case["go"].as_str().unwrap_or("go depth 1").to_string();
    let rate = match case["clock"].as_str().unwrap_or("") {
        "1us/node" => 1_000,
        "1s/node" => 1_000_000_000,
        _ => 1_000_000,
    };
    let stop_at = case["context"]["stop_at_poll"].as_u64().unwrap_or(0);
    // rebuild the root with the reference
    let toks: Vec<&str> = pos_line.split(' ').collect();
    let fen_end = toks.iter().position(|t| *t == "moves").unwrap_or(toks.len());
    let fen = toks[2..fen_end].join(" ");
    let mut root = match Pos::from_fen(&fen) {
        Ok(p) => p,
        Err(_) => return 2,
    };
    for u in toks.iter().skip(fen_end + 1) {
        if let Some(m) = root.find_legal_uci(u) {
            root = root.make(&m);
        }
    }
    let needs_stop = !(go.contains("depth") || go.contains("movetime") || go.contains("wtime"));
    let (n2, _) = dry_run(&pos_line, "go depth 2");
    let searchmoves: Vec<String> = match go.split(' ').position(|t| t == "searchmoves") {
        Some(i) => go.split(' ').skip(i + 1).take_while(|t| is_move(t)).map(|t| t.to_string()).collect(),
        None => vec![],
    };
    let spec = GoSpec { line: go.clone(), needs_stop, searchmoves };
    let prefix: Vec<String> = case["context"]["prefix"].as_array().map(|a| a.iter().filter_map(|v| v.as_str().map(|s| s.to_string())).collect()).unwrap_or_default();
    let mut seen = Vec::new();
    for round in 0..2 {
        let mut s = Session::new(false);
        if prefix.is_empty() {
            s.line("ucinewgame");
        }
        for l in &prefix {
            if l.starts_with("go") {
                let _ = run_go(&mut s, l, Plan::virtual_rate(1_000), &none);
            } else {
                s.line(l);
            }
        }
        if !case["context"]["rejected_position_command_before"].as_bool().unwrap_or(false) {
            s.line(&pos_line);
        }
        let (plan, st) = plan_for(&spec, rate, n2, stop_at.max(1));
        let out = run_go(&mut s, &go, plan, &|kk| if kk == st { vec![GateAction::Stop] } else { vec![] });
        let (late, _) = s.quit();
        let late_best = late.iter().filter(|e| matches!(e, Ev::Best(..))).count();
        seen.push((out.best.clone(), out.n_best, out.problem.clone()));
        if round == 1 {
            if seen[0] != seen[1] {
                eprintln!("MACHINERY: two replays differ: {:?}", seen);
                return 2;
            }
            println!("go answered with bestmove {:?} (count {}, late {}), problem {:?}", out.best, out.n_best, late_best, out.problem);
            c07_judge(&rep, &root, "replay", &pos_line, &spec, case["clock"].as_str().unwrap_or(""), &out, late_best, json!({"replay": true}));
        }
    }
    println!("replay: {} violating case(s) reproduced", rep.violation_count());
    let mut cov = Coverage::new();
    cov.states = 1;
    finish(&rep, Tier::Quick, cov, started)
}

// =======================================================================================
// C16

/// engine-to-GUI grammar (tolerant, as GUIs implement it). Returns parsed fields of an info line.
#[derive(Debug, Default, Clone)]
pub struct InfoLine {
    pub depth: Option<u64>,
    pub nodes: Option<u64>,
    pub time: Option<u64>,
    pub pv: Option<Vec<String>>,
    pub score: Option<String>,
}

#[derive(Debug, Clone)]
pub enum OutLine {
    Info(InfoLine),
    Best(String, Option<String>),
    Other,
}

fn is_move(t: &str) -> bool {
    crate::uci_checks::classify_move_token(t) == crate::uci_checks::Tok::Valid
}

const INFO_KEYS: [&str; 17] = ["depth", "seldepth", "time", "nodes", "pv", "multipv", "score", "currmove", "currmovenumber", "hashfull", "nps", "tbhits", "sbhits", "cpuload", "string", "refutation", "currline"];

pub fn parse_out_line(l: &str) -> Result<OutLine, String> {
    if l.contains('\n') || l.contains('\r') {
        return Err("embedded line break".into());
    }
    let t: Vec<&str> = l.split(' ').collect();
    if t.iter().any(|x| x.is_empty()) && !l.contains(" string ") {
        return Err("empty token (double blank)".into());
    }
    let num = |s: &str| -> Result<u64, String> { s.parse::<u64>().map_err(|_| format!("not a non-negative integer: {:?}", s)) };
    let int = |s: &str| -> Result<i64, String> { s.parse::<i64>().map_err(|_| format!("not an integer: {:?}", s)) };
    match t[0] {
        "id" => {
            if t.len() >= 3 && (t[1] == "name" || t[1] == "author") {
                Ok(OutLine::Other)
            } else {
                Err("malformed id".into())
            }
        }
        "uciok" | "readyok" => {
            if t.len() == 1 {
                Ok(OutLine::Other)
            } else {
                Err("trailing tokens".into())
            }
        }
        "copyprotection" | "registration" => {
            if t.len() == 2 && ["checking", "ok", "error"].contains(&t[1]) {
                Ok(OutLine::Other)
            } else {
                Err("malformed protection message".into())
            }
        }
        "option" => {
            if t.len() >= 5 && t[1] == "name" && t.contains(&"type") {
                Ok(OutLine::Other)
            } else {
                Err("malformed option".into())
            }
        }
        "bestmove" => {
            if t.len() == 2 || (t.len() == 4 && t[2] == "ponder") {
                if t[1] != "0000" && !is_move(t[1]) {
                    return Err(format!("bestmove token {:?}", t[1]));
                }
                if t.len() == 4 && !is_move(t[3]) {
                    return Err(format!("ponder token {:?}", t[3]));
                }
                Ok(OutLine::Best(t[1].to_string(), t.get(3).map(|s| s.to_string())))
            } else {
                Err("malformed bestmove".into())
            }
        }
        "info" => {
            let mut il = InfoLine::default();
            let mut i = 1;
            if t.len() == 1 {
                return Ok(OutLine::Info(il));
            }
            while i < t.len() {
                let k = t[i];
                i += 1;
                match k {
                    "depth" | "seldepth" | "time" | "nodes" | "multipv" | "currmovenumber" | "hashfull" | "nps" | "tbhits" | "sbhits" | "cpuload" => {
                        let v = num(t.get(i).ok_or(format!("{} without value", k))?)?;
                        i += 1;
                        match k {
                            "depth" => il.depth = Some(v),
                            "time" => il.time = Some(v),
                            "nodes" => il.nodes = Some(v),
                            _ => {}
                        }
                    }
                    "score" => {
                        let kind = *t.get(i).ok_or("score without kind")?;
                        if kind != "cp" && kind != "mate" {
                            return Err(format!("score kind {:?}", kind));
                        }
                        let v = int(t.get(i + 1).ok_or("score without value")?)?;
                        i += 2;
                        let mut s = format!("{} {}", kind, v);
                        if i < t.len() && (t[i] == "lowerbound" || t[i] == "upperbound") {
                            s.push(' ');
                            s.push_str(t[i]);
                            i += 1;
                        }
                        il.score = Some(s);
                    }
                    "currmove" => {
                        if !is_move(t.get(i).ok_or("currmove without move")?) {
                            return Err("currmove token".into());
                        }
                        i += 1;
                    }
                    "pv" | "refutation" | "currline" => {
                        let mut mv = Vec::new();
                        if k == "currline" && i < t.len() && t[i].parse::<u64>().is_ok() {
                            i += 1;
                        }
                        while i < t.len() && !INFO_KEYS.contains(&t[i]) {
                            if !is_move(t[i]) {
                                return Err(format!("{} contains a non-move token {:?}", k, t[i]));
                            }
                            mv.push(t[i].to_string());
                            i += 1;
                        }
                        if k == "pv" {
                            il.pv = Some(mv);
                        }
                    }
                    "string" => {
                        i = t.len(); // rest of the line
                    }
                    other => return Err(format!("unknown info key {:?}", other)),
                }
            }
            Ok(OutLine::Info(il))
        }
        other => Err(format!("not an engine-to-GUI message: {:?}", other)),
    }
}

/// judge the lines of one search
fn c16_judge_search(rep: &Reporter, root: &Pos, lines: &[String], ctx: &Value, n_lines: &AtomicU64) {
    let case = |extra: Value| json!({"kind": "output", "context": ctx, "lines": lines, "detail": extra});
    rep.sample(|| json!({"context": ctx, "lines": lines}));
    let mut last = InfoLine::default();
    let mut last_pv: Option<Vec<String>> = None;
    let mut best: Option<(String, Option<String>)> = None;
    for l in lines {
        n_lines.fetch_add(1, Ordering::Relaxed);
        match parse_out_line(l) {
            Err(e) => {
                let what: String = e.chars().filter(|c| !c.is_ascii_digit()).take(40).collect();
                rep.report(format!("malformed_line:{}", what), case(json!({"line": l, "error": e})));
            }
            Ok(OutLine::Info(il)) => {
                for (name, a, b) in [("depth", last.depth, il.depth), ("nodes", last.nodes, il.nodes), ("time", last.time, il.time)] {
                    if let (Some(a), Some(b)) = (a, b) {
                        if b < a {
                            rep.report(format!("{}_decreases_within_a_search", name), case(json!({"line": l, "previous": a, "now": b})));
                        }
                    }
                }
                if il.depth.is_some() {
                    last.depth = il.depth;
                }
                if il.nodes.is_some() {
                    last.nodes = il.nodes;
                }
                if il.time.is_some() {
                    last.time = il.time;
                }
                if let Some(pv) = &il.pv {
                    let mut q = root.clone();
                    for (i, u) in pv.iter().enumerate() {
                        match q.find_legal_uci(u) {
                            Some(m) => q = q.make(&m),
                            None => {
                                rep.report("pv_is_not_a_legal_line".to_string(), case(json!({"line": l, "illegal_at": i, "move": u, "position": q.to_fen()})));
                                break;
                            }
                        }
                    }
                    last_pv = Some(pv.clone());
                }
            }
            Ok(OutLine::Best(b, p)) => {
                if best.is_some() {
                    rep.report("second_bestmove_line".to_string(), case(json!({"line": l})));
                }
                best = Some((b, p));
            }
            Ok(OutLine::Other) => {}
        }
    }
    if let Some((b, p)) = best {
        let pv = last_pv.unwrap_or_default();
        let want_best = pv.first().cloned();
        let want_ponder = pv.get(1).cloned();
        if b != "0000" && Some(&b) != want_best.as_ref() {
            rep.report("bestmove_is_not_first_move_of_last_pv".to_string(), case(json!({"bestmove": b, "last_pv": pv})));
        }
        if b == "0000" && p.is_some() {
            rep.report("ponder_move_with_null_bestmove".to_string(), case(json!({"ponder": p})));
        } else if b != "0000" && p != want_ponder {
            let sig = if pv.len() < 2 && p.is_some() { "ponder_move_not_from_this_search" } else { "ponder_is_not_second_move_of_last_pv" };
            rep.report(sig.to_string(), case(json!({"bestmove": b, "ponder": p, "last_pv": pv})));
        }
    }
}

/// Sessions built from NEIGHBOURING position commands on one engine instance.
/// (a) `position A`, go, `position B`, go — B differs from A in one token (another move from the same
///     root, another promotion letter on the same squares, one FEN field): the second search is
///     judged for B (`what` = "C07": bestmove legal in B; "C16": every output line, pv legal in B).
/// (b) `position A` (accepted), then a REJECTED position command (A continued by legal moves and an
///     illegal one; a prefix of A and an illegal one; another root), then go: judged for A
///     (`what` = "C07" or "C13").
/// Returns the number of judged searches.
pub fn position_command_sessions(rep: &Reporter, tier: Tier, what: &str, n_lines: &AtomicU64) -> u64 {
    let roots = ["6k1/1r2P3/8/8/8/8/1R6/4K3 w - - 0 1", "rnbqkbnr/pppppppp/8/8/8/8/PPPPPPPP/RNBQKBNR w KQkq - 0 1", "r3k2r/8/8/8/8/8/8/R3K2R w KQkq - 0 1", "4k3/8/8/3pP3/8/8/8/4K3 w - d6 0 1", "8/2P5/8/8/8/8/5p2/K6k b - - 0 1"];
    let judged = AtomicU64::new(0);
    let per_root = if tier == Tier::Quick { 10 } else { 40 };
    let mut jobs_a: Vec<(String, Pos, String, Pos)> = Vec::new(); // (command A, root A, command B, root B)
    let mut jobs_b: Vec<(String, Pos, String)> = Vec::new(); // (command A, root A, rejected command)
    let mut jobs_c: Vec<(String, String, String, Pos)> = Vec::new(); // (accepted, rejected extension, accepted extension of that, its root)
    for f in roots {
        let base = Pos::from_fen(f).unwrap();
        let legal = base.legal();
        // promotions first (all four letters of a push), then a spread of the others
        let mut chosen: Vec<Mv> = legal.iter().filter(|m| m.promo != 0).copied().collect();
        let step = (legal.len() / per_root).max(1);
        chosen.extend(legal.iter().filter(|m| m.promo == 0).step_by(step).copied());
        chosen.truncate(per_root + 8);
        let cmds: Vec<(String, Pos)> = chosen.iter().map(|m| (position_line(&base, &[m.uci()]), base.make(m))).collect();
        for (ca, ra) in &cmds {
            for (cb, rb) in &cmds {
                if ca != cb {
                    jobs_a.push((ca.clone(), ra.clone(), cb.clone(), rb.clone()));
                }
            }
        }
        // prefixes and extensions of one game: every ordered pair of lengths 0..5 (stepping forwards
        // and backwards through a game by one, two, three ... plies, as an analysis GUI does)
        {
            let mut line: Vec<String> = Vec::new();
            let mut roots_along: Vec<Pos> = vec![base.clone()];
            let mut q = base.clone();
            for ply in 0..5 {
                let l = q.legal();
                if l.is_empty() {
                    break;
                }
                // a quiet, varied choice: not always the first move
                let m = l[(ply * 7 + 3) % l.len()];
                q = q.make(&m);
                if !q.has_legal_move() {
                    break;
                }
                line.push(m.uci());
                roots_along.push(q.clone());
            }
            for i in 0..=line.len() {
                for j in 0..=line.len() {
                    if i != j {
                        jobs_a.push((position_line(&base, &line[..i]), roots_along[i].clone(), position_line(&base, &line[..j]), roots_along[j].clone()));
                    }
                }
            }
            // triples: an accepted list, a REJECTED extension of it (one or two legal moves, then an
            // impossible one), then the legal list that a corrected command would send (the game's own
            // continuation, one ply beyond the legal part of the rejected list)
            for i in 0..line.len() {
                for j in 1..=2usize {
                    if i + j + 1 > line.len() {
                        continue;
                    }
                    let mut rejected: Vec<String> = line[..i + j].to_vec();
                    rejected.push("a1a1".to_string());
                    jobs_c.push((position_line(&base, &line[..i]), position_line(&base, &rejected), position_line(&base, &line[..i + j + 1]), roots_along[i + j + 1].clone()));
                }
            }
        }
        // FEN-field neighbours of the root itself
        let mut variants: Vec<Pos> = Vec::new();
        for edit in 0..5 {
            let mut q = base.clone();
            match edit {
                0 => q.half = base.half + 7,
                1 => q.full = base.full + 30,
                2 => q.castle = 0,
                3 => q.ep = NO_EP,
                _ => {
                    q.stm = 1 - base.stm;
                    q.ep = NO_EP;
                }
            }
            if q != base && q.is_legal_position() && q.has_legal_move() {
                variants.push(q);
            }
        }
        for q in &variants {
            jobs_a.push((position_line(&base, &[]), base.clone(), position_line(q, &[]), q.clone()));
            jobs_a.push((position_line(q, &[]), q.clone(), position_line(&base, &[]), base.clone()));
        }
        // (b) rejected commands after an accepted one
        for (ca, ra) in cmds.iter().take(4) {
            let first = ca.split(" moves ").nth(1).unwrap_or("").to_string();
            let mut ext: Vec<String> = vec![first.clone()];
            let mut q = ra.clone();
            for _ in 0..2 {
                if let Some(m) = q.legal().first().copied() {
                    ext.push(m.uci());
                    q = q.make(&m);
                }
            }
            let illegal = "e4e5".to_string(); // from an empty square in every root used here, or blocked
            let bad = if q.find_legal_uci(&illegal).is_none() { illegal } else { "a1a1".to_string() };
            let mut continued = ext.clone();
            continued.push(bad.clone());
            jobs_b.push((ca.clone(), ra.clone(), position_line(&base, &continued)));
            jobs_b.push((ca.clone(), ra.clone(), position_line(&base, &[first.clone(), bad.clone()])));
            jobs_b.push((ca.clone(), ra.clone(), position_line(&base, &[bad.clone()])));
            jobs_b.push((ca.clone(), ra.clone(), format!("position startpos moves e2e4 e7e5 {}", "e1e3")));
        }
    }
    if what != "C13" {
        par_map_fine(&jobs_a, |(ca, _ra, cb, rb)| {
            for first_go in ["go depth 2", "go movetime 0"] {
                let mut s = Session::new(false);
                s.line(ca);
                let _ = run_go(&mut s, first_go, Plan::virtual_rate(1_000), &none);
                s.line(cb);
                let spec = GoSpec { line: "go depth 2".to_string(), needs_stop: false, searchmoves: vec![] };
                let out = run_go(&mut s, &spec.line, Plan::virtual_rate(1_000), &none);
                let (late, _) = s.quit();
                let late_best = late.iter().filter(|e| matches!(e, Ev::Best(..))).count();
                judged.fetch_add(1, Ordering::Relaxed);
                let ctx = json!({"prefix": [ca, first_go], "neighbouring_position_commands": true});
                if what == "C16" {
                    c16_judge_search(rep, rb, &out.obs.lines, &json!({"session": [ca, first_go, cb, "go depth 2"], "judged": "the last search"}), n_lines);
                } else {
                    c07_judge(rep, rb, "neighbour_position", cb, &spec, "1us/node", &out, late_best, ctx);
                }
            }
        });
    }
    if what != "C16" {
        par_map_fine(&jobs_b, |(ca, ra, rejected)| {
            let mut s = Session::new(false);
            s.line(ca);
            let _ = run_go(&mut s, "go depth 1", Plan::virtual_rate(1_000), &none);
            s.line(rejected);
            let spec = GoSpec { line: "go depth 1".to_string(), needs_stop: false, searchmoves: vec![] };
            let out = run_go(&mut s, &spec.line, Plan::virtual_rate(1_000), &none);
            let (late, _) = s.quit();
            let late_best = late.iter().filter(|e| matches!(e, Ev::Best(..))).count();
            judged.fetch_add(1, Ordering::Relaxed);
            if what == "C13" {
                let legal: Vec<String> = ra.legal().iter().map(|m| m.uci()).collect();
                let ok = match &out.best {
                    Some(b) => legal.contains(b),
                    None => legal.is_empty(),
                };
                if !ok || out.n_best != 1 {
                    rep.report("position_command:rejected_move_list_partly_applied".to_string(), json!({"kind": "rejected_position", "accepted": ca, "rejected": rejected, "detail": {"bestmove_of_the_following_go": out.best, "legal_in_the_accepted_position": legal}}));
                }
            } else {
                c07_judge(rep, ra, "after_rejected_position", ca, &spec, "1us/node", &out, late_best, json!({"prefix": [ca, "go depth 1", rejected], "rejected_position_command_before": true}));
            }
        });
    }
    par_map_fine(&jobs_c, |(ca, rejected, cc, rc)| {
        for go_between in [false, true] {
            let mut s = Session::new(false);
            s.line(ca);
            if go_between {
                let _ = run_go(&mut s, "go depth 1", Plan::virtual_rate(1_000), &none);
            }
            s.line(rejected);
            s.line(cc);
            let spec = GoSpec { line: "go depth 2".to_string(), needs_stop: false, searchmoves: vec![] };
            let out = run_go(&mut s, &spec.line, Plan::virtual_rate(1_000), &none);
            let (late, _) = s.quit();
            let late_best = late.iter().filter(|e| matches!(e, Ev::Best(..))).count();
            judged.fetch_add(1, Ordering::Relaxed);
            match what {
                "C16" => c16_judge_search(rep, rc, &out.obs.lines, &json!({"session": [ca, rejected, cc, "go depth 2"], "judged": "the last search"}), n_lines),
                "C13" => {
                    // the accepted list is applied in full: the answer is the one a fresh engine gives
                    let (_, fresh) = dry_run(cc, "go depth 2");
                    if out.n_best != 1 || out.best != fresh.best || out.score != fresh.score {
                        rep.report("position_command:accepted_list_after_a_rejected_extension_not_applied".to_string(), json!({"kind": "rejected_then_accepted_position", "accepted": ca, "rejected": rejected, "accepted_after_it": cc, "go_between": go_between, "detail": {"bestmove": out.best, "score": format!("{:?}", out.score), "fresh_engine_bestmove": fresh.best, "fresh_engine_score": format!("{:?}", fresh.score)}}));
                    }
                }
                _ => {
                    let prefix: Vec<&str> = if go_between { vec![ca.as_str(), "go depth 1", rejected.as_str()] } else { vec![ca.as_str(), rejected.as_str()] };
                    c07_judge(rep, rc, "after_rejected_extension", cc, &spec, "1us/node", &out, late_best, json!({"prefix": prefix, "rejected_extension_before": true}))
                }
            }
        }
    });
    judged.load(Ordering::Relaxed)
}

/// replay of one accepted / rejected extension / accepted triple (C13)
pub fn replay_position_triple(case: &Value) -> i32 {
    let started = Instant::now();
    let rep = Reporter::new("C13");
    let (ca, rejected, cc) = (case["accepted"].as_str().unwrap_or(""), case["rejected"].as_str().unwrap_or(""), case["accepted_after_it"].as_str().unwrap_or(""));
    let go_between = case["go_between"].as_bool().unwrap_or(false);
    let mut s = Session::new(false);
    s.line(ca);
    if go_between {
        let _ = run_go(&mut s, "go depth 1", Plan::virtual_rate(1_000), &none);
    }
    s.line(rejected);
    s.line(cc);
    let out = run_go(&mut s, "go depth 2", Plan::virtual_rate(1_000), &none);
    s.quit();
    let (_, fresh) = dry_run(cc, "go depth 2");
    println!("{}\n{}   (rejected)\n{}\ngo depth 2 -> {:?} {:?}; a fresh engine given only the last command: {:?} {:?}", ca, rejected, cc, out.best, out.score, fresh.best, fresh.score);
    if out.n_best != 1 || out.best != fresh.best || out.score != fresh.score {
        rep.report("position_command:accepted_list_after_a_rejected_extension_not_applied".to_string(), json!({"kind": "rejected_then_accepted_position", "accepted": ca, "rejected": rejected, "accepted_after_it": cc, "go_between": go_between}));
    }
    println!("replay: {} violating case(s) reproduced", rep.violation_count());
    let mut cov = Coverage::new();
    cov.states = 1;
    finish(&rep, Tier::Quick, cov, started)
}

pub fn run_c16(tier: Tier) -> i32 {
    let started = Instant::now();
    let rep = Reporter::new("C16");
    let n_lines = AtomicU64::new(0);
    let n_searches = AtomicU64::new(0);
    // consecutive positions of one game, so that PV continuation and ponder hits happen
    let game = ["e2e4", "e7e5", "g1f3", "b8c6", "f1c4", "f8c5", "c2c3", "g8f6", "d2d4", "e5d4"];
    let pool: Vec<Vec<String>> = (0..6).map(|i| game[..i + 2].iter().map(|s| s.to_string()).collect()).collect();
    let gos: Vec<(&str, bool)> = vec![("go depth 1", false), ("go depth 2", false), ("go depth 3", false), ("go movetime 40", false), ("go wtime 3000 btime 3000 winc 20 binc 20", false), ("go infinite", true), ("go depth 2 searchmoves a1a1", false)];
    let len = if tier == Tier::Quick { 2 } else { 3 };
    let mut sessions: Vec<Vec<(usize, usize)>> = vec![vec![]];
    for _ in 0..len {
        let mut next = Vec::new();
        for s in &sessions {
            let from = s.last().map(|x| x.0).unwrap_or(0);
            for p in from..pool.len().min(from + 3) {
                for g in 0..gos.len() {
                    let mut t = s.clone();
                    t.push((p, g));
                    next.push(t);
                }
            }
        }
        sessions = next;
    }
    let variants: Vec<(bool, bool, bool, u64)> = {
        let mut v = Vec::new();
        for newgame in [false, true] {
            for debug in [false, true] {
                for isready in [false, true] {
                    for rate in [1_000u64, 1_000_000] {
                        if tier == Tier::Quick && (newgame as u8 + debug as u8 + isready as u8) > 1 {
                            continue;
                        }
                        v.push((newgame, debug, isready, rate));
                    }
                }
            }
        }
        v
    };
    let jobs: Vec<(usize, usize)> = (0..sessions.len()).flat_map(|s| (0..variants.len()).map(move |v| (s, v))).collect();
    let start = Pos::startpos();
    par_map_fine(&jobs, |&(si, vi)| {
        let (newgame, debug, isready, rate) = variants[vi];
        let mut s = Session::new(false);
        s.line("uci");
        if debug {
            s.line("debug on");
        }
        for (ci, &(p, g)) in sessions[si].iter().enumerate() {
            let moves = &pool[p];
            let mut root = start.clone();
            for u in moves {
                let m = root.find_legal_uci(u).unwrap();
                root = root.make(&m);
            }
            if newgame && ci > 0 {
                s.line("ucinewgame");
            }
            s.line(&format!("position startpos moves {}", moves.join(" ")));
            let (go, needs_stop) = gos[g];
            let stop_polls: Vec<u64> = if needs_stop { vec![1 + (si as u64 % 5) * 3] } else { vec![] };
            let mut gates = stop_polls.clone();
            if isready {
                gates.push(1);
            }
            gates.sort();
            gates.dedup();
            let plan = Plan { poll: Some((400, 48_000)), clock: Clock::Rate { ns_per_node: rate, jumps: vec![] }, gates };
            let sp = stop_polls.clone();
            let out = run_go(&mut s, go, plan, &move |kk| {
                let mut a = Vec::new();
                if isready && kk == 1 {
                    a.push(GateAction::IsReady);
                }
                if sp.contains(&kk) {
                    a.push(GateAction::Stop);
                }
                a
            });
            n_searches.fetch_add(1, Ordering::Relaxed);
            let ctx = json!({"session": sessions[si].iter().map(|(p, g)| json!({"moves_played": pool[*p].len(), "go": gos[*g].0})).collect::<Vec<_>>(), "cycle_index": ci, "ucinewgame": newgame, "debug": debug, "isready_during_search": isready, "ns_per_node": rate});
            if let Some(pr) = &out.problem {
                rep.report(format!("no_answer:{}", short(pr)), json!({"kind": "output", "context": ctx, "problem": pr}));
                break;
            }
            // lines of this search only: everything since the go command
            let lines: Vec<String> = out.obs.lines.iter().filter(|l| !l.starts_with("id ") && *l != "uciok").cloned().collect();
            c16_judge_search(&rep, &root, &lines, &ctx, &n_lines);
        }
        s.quit();
    });
    // real clock, the product's own poll rule, messages delivered while a long search is running:
    // the time / nodes / depth reported within one search must still never decrease
    let t0 = Instant::now();
    let long_positions = ["position startpos moves e2e4 e7e5 g1f3 b8c6 f1c4 f8c5 c2c3 g8f6", "position fen r3k2r/p1ppqpb1/bn2pnp1/3PN3/1p2P3/2N2Q1p/PPPBBPPP/R3K2R w KQkq - 0 1"];
    let msgs: Vec<(GateAction, &str)> = vec![(GateAction::PonderHit, "ponderhit"), (GateAction::IsReady, "isready"), (GateAction::Debug(true), "debug on"), (GateAction::NewGame, "ucinewgame")];
    let long_gos = ["go ponder depth 6", "go depth 6", "go ponder wtime 600000 btime 600000 winc 1000 binc 1000 depth 6"];
    let mut long_jobs: Vec<(usize, usize, usize)> = Vec::new();
    for p in 0..long_positions.len() {
        for m in 0..msgs.len() {
            for g in 0..long_gos.len() {
                if tier == Tier::Quick && (p + m + g) % 2 == 1 {
                    continue;
                }
                long_jobs.push((p, m, g));
            }
        }
    }
    let polled = AtomicU64::new(0);
    par_map_fine(&long_jobs, |&(p, m, g)| {
        let pos_line = long_positions[p];
        let toks: Vec<&str> = pos_line.split(' ').collect();
        let mut root = if toks[1] == "startpos" { Pos::startpos() } else { Pos::from_fen(&toks[2..8].join(" ")).unwrap() };
        if let Some(mi) = toks.iter().position(|t| *t == "moves") {
            for u in &toks[mi + 1..] {
                let mv = root.find_legal_uci(u).unwrap();
                root = root.make(&mv);
            }
        }
        let mut s = Session::new(false);
        s.line(pos_line);
        let msg = msgs[m].0.clone();
        let out = run_go(&mut s, long_gos[g], Plan { poll: None, clock: Clock::Real, gates: vec![1] }, &move |kk| if kk == 1 { vec![msg.clone()] } else { vec![] });
        s.quit();
        n_searches.fetch_add(1, Ordering::Relaxed);
        if !out.obs.parked_at.is_empty() {
            polled.fetch_add(1, Ordering::Relaxed);
        }
        let ctx = json!({"real_clock": true, "product_poll_rule": true, "position": pos_line, "go": long_gos[g], "message_at_first_poll": msgs[m].1});
        if let Some(pr) = &out.problem {
            rep.report(format!("no_answer:{}", short(pr)), json!({"kind": "output", "context": ctx, "problem": pr}));
            return;
        }
        c16_judge_search(&rep, &root, &out.obs.lines, &ctx, &n_lines);
    });
    if polled.load(Ordering::Relaxed) == 0 {
        rep.machinery("vacuous: no long search reached its first real poll");
    }
    let long_secs = t0.elapsed().as_secs_f64();
    // every go form on positions where something is about to end: forced mates in 1..3, a position
    // one move from stalemate, a lone-king defence — `mate`, `nodes`, `movestogo` and mixed forms
    // included (forms without a limit the engine honours are ended by stop at the first scaled poll)
    let t_forms = Instant::now();
    let form_roots = ["kbK5/pp6/1P6/8/8/8/8/R7 w - - 0 1", "6k1/5ppp/8/8/8/8/8/R3K3 w Q - 0 1", "7k/8/5KQ1/8/8/8/8/8 w - - 0 1", "k7/8/1K6/8/8/8/8/7R w - - 0 1", "r1bqkbnr/pppp1ppp/2n5/4p3/2B1P3/5Q2/PPPP1PPP/RNB1K1NR w KQkq - 0 1", "7k/5Q2/8/6K1/8/8/8/8 w - - 0 1", "8/8/8/8/8/5k2/8/3q3K w - - 0 1"];
    let form_gos: Vec<(&str, bool)> = vec![("go mate 1", true), ("go mate 2", true), ("go mate 3", true), ("go depth 3 mate 2", false), ("go nodes 3000", true), ("go movestogo 3 wtime 900 btime 900", false), ("go mate 2 movetime 300", false), ("go ponder mate 2 depth 3", false), ("go depth 4", false)];
    let form_jobs: Vec<(usize, usize)> = (0..form_roots.len()).flat_map(|r| (0..form_gos.len()).map(move |g| (r, g))).collect();
    par_map_fine(&form_jobs, |&(r, g)| {
        let root = Pos::from_fen(form_roots[r]).unwrap();
        let pos_line = position_line(&root, &[]);
        let (go, needs_stop) = form_gos[g];
        let mut s = Session::new(false);
        s.line(&pos_line);
        let plan = if needs_stop { Plan { poll: Some((200, 20_000)), clock: Clock::Rate { ns_per_node: 1_000, jumps: vec![] }, gates: vec![1] } } else { Plan::virtual_rate(1_000_000) };
        let out = run_go(&mut s, go, plan, &|kk| if kk == 1 { vec![GateAction::Stop] } else { vec![] });
        s.quit();
        n_searches.fetch_add(1, Ordering::Relaxed);
        if let Some(pr) = &out.problem {
            rep.report(format!("no_bestmove:{}", short(pr)), json!({"kind": "output", "context": {"position": pos_line, "go": go}, "lines": out.obs.lines, "detail": {"problem": pr}}));
            return;
        }
        c16_judge_search(&rep, &root, &out.obs.lines, &json!({"position": pos_line, "go": go, "stopped_at_first_scaled_poll": needs_stop}), &n_lines);
    });
    let forms_secs = t_forms.elapsed().as_secs_f64();
    // roots in which the right promotion piece is not the queen (the queen, or queen and rook,
    // stalemate; the knight mates): promotion letters other than q in the pv, bestmove and ponder move
    let t_up = Instant::now();
    let up_roots = underpromotion_roots(if tier == Tier::Quick { 40 } else { 1500 });
    let letters: std::sync::Mutex<std::collections::BTreeMap<char, u64>> = std::sync::Mutex::new(Default::default());
    let up_jobs: Vec<(usize, bool)> = (0..up_roots.len()).flat_map(|r| [(r, false), (r, true)]).collect();
    par_map_fine(&up_jobs, |&(r, flip)| {
        let root = if flip { up_roots[r].0.flip() } else { up_roots[r].0.clone() };
        let pos_line = position_line(&root, &[]);
        let mut s = Session::new(false);
        for d in 1..=3 {
            s.line(&pos_line);
            let go = format!("go depth {}", d);
            let out = run_go(&mut s, &go, Plan::virtual_rate(1_000), &none);
            n_searches.fetch_add(1, Ordering::Relaxed);
            if let Some(pr) = &out.problem {
                rep.report(format!("no_bestmove:{}", short(pr)), json!({"kind": "output", "context": {"position": pos_line, "go": go}, "lines": out.obs.lines, "detail": {"problem": pr}}));
                break;
            }
            if let Some(b) = &out.best {
                if b.len() == 5 {
                    *letters.lock().unwrap().entry(b.chars().last().unwrap()).or_insert(0) += 1;
                }
            }
            c16_judge_search(&rep, &root, &out.obs.lines, &json!({"position": pos_line, "go": go, "root_class": format!("underpromotion:{}", up_roots[r].1)}), &n_lines);
        }
        s.quit();
    });
    let letters = letters.into_inner().unwrap();
    if letters.get(&'r').copied().unwrap_or(0) == 0 || letters.get(&'b').copied().unwrap_or(0) + letters.get(&'n').copied().unwrap_or(0) == 0 {
        rep.machinery(format!("vacuous: the under-promotion roots did not make the engine announce a rook and a minor-piece promotion (letters seen: {:?})", letters));
    }
    let up_secs = t_up.elapsed().as_secs_f64();
    // neighbouring position commands: position A, go, position B (one token different), go
    let t_nb = Instant::now();
    let n_nb = position_command_sessions(&rep, tier, "C16", &n_lines);
    let nb_secs = t_nb.elapsed().as_secs_f64();
    // the real binary: whole sessions over pipes, every line parsed, same invariants
    let bin_lines = c16_binary(&rep, &n_lines);
    let mut cov = Coverage::new();
    cov.set("neighbouring_position_command_sessions", json!({"judged_searches": n_nb, "secs": nb_secs}));
    cov.set("underpromotion_roots", json!({"roots_incl_flips": up_jobs.len(), "classes": ["minor (queen and rook stalemate)", "rook (queen stalemates)", "knight (knight mates, queen does not)"], "depths": [1, 2, 3], "promotion_letters_of_the_announced_bestmoves": letters.iter().map(|(k, v)| (k.to_string(), *v)).collect::<std::collections::BTreeMap<String, u64>>(), "secs": up_secs}));
    cov.set("go_forms_on_positions_with_forced_mates", json!({"roots": form_roots.len(), "go_forms": form_gos.len(), "secs": forms_secs}));
    cov.states = jobs.len() as u64;
    cov.transitions = n_lines.load(Ordering::Relaxed);
    cov.traces_validated = bin_lines;
    cov.set("sessions", json!(sessions.len()));
    cov.set("session_variants", json!(variants.len()));
    cov.set("searches", json!(n_searches.load(Ordering::Relaxed)));
    cov.set("lines_parsed", json!(n_lines.load(Ordering::Relaxed)));
    cov.set("lines_from_the_real_binary", json!(bin_lines));
    cov.set("long_searches_real_clock_real_polls_with_message_at_first_poll", json!({"runs": long_jobs.len(), "reached_a_poll": polled.load(Ordering::Relaxed), "secs": long_secs}));
    cov.samples = vec![json!({"session": ["position startpos moves e2e4 e7e5; go depth 3", "position startpos moves e2e4 e7e5 g1f3; go depth 2"], "lines_judged": "every line produced by the real ConsoleUciTx"})];
    cov.assumptions = vec!["stdout is line-atomic; the in-process lines come from the real ConsoleUciTx with a capturing closure".into()];
    finish(&rep, tier, cov, started)
}

fn c16_binary(rep: &Reporter, n_lines: &AtomicU64) -> u64 {
    use std::io::{BufRead, BufReader, Write};
    use std::process::{Command, Stdio};
    let bin = match std::env::var("IVK_ENGINE_BIN") {
        Ok(b) if std::path::Path::new(&b).exists() => b,
        _ => {
            rep.machinery("IVK_ENGINE_BIN not set or missing: real-binary run skipped");
            return 0;
        }
    };
    let script: Vec<(&str, Vec<&str>)> = vec![
        ("position startpos", vec!["go depth 3"]),
        ("position startpos moves e2e4 e7e5", vec!["go depth 3", "go depth 1"]),
        ("position startpos moves e2e4 e7e5 g1f3", vec!["go depth 2", "go movetime 30"]),
        ("position fen 7k/5Q2/6K1/8/8/8/8/8 b - - 0 1", vec!["go depth 2"]),
        ("position startpos moves e2e4 e7e5 g1f3 b8c6", vec!["go depth 2 searchmoves a1a1", "go wtime 2000 btime 2000 winc 10 binc 10"]),
    ];
    let mut child = match Command::new(&bin).stdin(Stdio::piped()).stdout(Stdio::piped()).stderr(Stdio::null()).spawn() {
        Ok(c) => c,
        Err(e) => {
            rep.machinery(format!("cannot start {}: {}", bin, e));
            return 0;
        }
    };
    let mut stdin = child.stdin.take().unwrap();
    let stdout = child.stdout.take().unwrap();
    let (tx, rx) = std::sync::mpsc::channel::<String>();
    std::thread::spawn(move || {
        for l in BufReader::new(stdout).lines().flatten() {
            if tx.send(l).is_err() {
                break;
            }
        }
    });
    let mut total = 0u64;
    let _ = writeln!(stdin, "uci");
    let _ = writeln!(stdin, "isready");
    let _ = stdin.flush();
    // banner + uci answer
    let mut pre = Vec::new();
    let t0 = Instant::now();
    while t0.elapsed() < Duration::from_secs(10) {
        if let Ok(l) = rx.recv_timeout(Duration::from_millis(100)) {
            let done = l == "readyok";
            pre.push(l);
            if done {
                break;
            }
        }
    }
    for (i, l) in pre.iter().enumerate() {
        total += 1;
        n_lines.fetch_add(1, Ordering::Relaxed);
        if i == 0 {
            continue; // the start-up banner is free text
        }
        if let Err(e) = parse_out_line(l) {
            rep.report("binary:malformed_line".to_string(), json!({"kind": "binary_output", "line": l, "error": e}));
        }
    }
    for (pos, gos) in script {
        let toks: Vec<&str> = pos.split(' ').collect();
        let mut root = if toks[1] == "startpos" { Pos::startpos() } else { Pos::from_fen(&toks[2..8].join(" ")).unwrap() };
        if let Some(mi) = toks.iter().position(|t| *t == "moves") {
            for u in &toks[mi + 1..] {
                let m = root.find_legal_uci(u).unwrap();
                root = root.make(&m);
            }
        }
        let _ = writeln!(stdin, "{}", pos);
        for go in gos {
            let _ = writeln!(stdin, "{}", go);
            let _ = stdin.flush();
            let mut lines = Vec::new();
            let t0 = Instant::now();
            let mut got_best = false;
            while t0.elapsed() < Duration::from_secs(30) {
                if let Ok(l) = rx.recv_timeout(Duration::from_millis(100)) {
                    let b = l.starts_with("bestmove");
                    lines.push(l);
                    if b {
                        got_best = true;
                        break;
                    }
                }
            }
            total += lines.len() as u64;
            if !got_best {
                rep.report("binary:no_bestmove_line".to_string(), json!({"kind": "binary_output", "position": pos, "go": go, "lines": lines}));
                continue;
            }
            c16_judge_search(rep, &root, &lines, &json!({"binary": true, "position": pos, "go": go}), n_lines);
        }
    }
    let _ = writeln!(stdin, "quit");
    let _ = stdin.flush();
    let t0 = Instant::now();
    loop {
        match child.try_wait() {
            Ok(Some(_)) => break,
            _ => {
                if t0.elapsed() > Duration::from_secs(10) {
                    let _ = child.kill();
                    break;
                }
                std::thread::sleep(Duration::from_millis(10));
            }
        }
    }
    total
}

pub fn replay_c16(case: &Value) -> i32 {
    let started = Instant::now();
    let rep = Reporter::new("C16");
    // a recorded output is judged again line by line (the grammar and the consistency rules are
    // deterministic functions of the lines); sessions are re-run by the quick check
    let lines: Vec<String> = case["lines"].as_array().map(|a| a.iter().map(|v| v.as_str().unwrap_or("").to_string()).collect()).unwrap_or_default();
    let ctx = &case["context"];
    let mut root = Pos::startpos();
    if let Some(sess) = ctx["session"].as_array() {
        let ci = ctx["cycle_index"].as_u64().unwrap_or(0) as usize;
        let n = sess.get(ci).and_then(|c| c["moves_played"].as_u64()).unwrap_or(0) as usize;
        let game = ["e2e4", "e7e5", "g1f3", "b8c6", "f1c4", "f8c5", "c2c3", "g8f6", "d2d4", "e5d4"];
        for u in game.iter().take(n) {
            let m = root.find_legal_uci(u).unwrap();
            root = root.make(&m);
        }
    }
    let n = AtomicU64::new(0);
    if let (Some(pos_line), Some(go)) = (ctx["position"].as_str(), ctx["go"].as_str()) {
        // one position, one go: executed again on a fresh engine and the fresh output judged
        if let Some(root) = pos_of_position_line(pos_line) {
            let needs_stop = ctx["stopped_at_first_scaled_poll"].as_bool().unwrap_or(false);
            let mut s = Session::new(false);
            s.line(pos_line);
            let plan = if needs_stop { Plan { poll: Some((200, 20_000)), clock: Clock::Rate { ns_per_node: 1_000, jumps: vec![] }, gates: vec![1] } } else { Plan::virtual_rate(1_000) };
            let out = run_go(&mut s, go, plan, &|kk| if kk == 1 && needs_stop { vec![GateAction::Stop] } else { vec![] });
            s.quit();
            for l in &out.obs.lines {
                println!("{}", l);
            }
            if let Some(pr) = &out.problem {
                rep.report(format!("no_bestmove:{}", short(pr)), json!({"kind": "output", "context": ctx, "lines": out.obs.lines, "detail": {"problem": pr}}));
            } else {
                c16_judge_search(&rep, &root, &out.obs.lines, ctx, &n);
            }
            println!("replay: {} violating case(s) reproduced", rep.violation_count());
            let mut cov = Coverage::new();
            cov.states = 1;
            return finish(&rep, Tier::Quick, cov, started);
        }
    }
    c16_judge_search(&rep, &root, &lines, ctx, &n);
    println!("replay: {} violating case(s) reproduced", rep.violation_count());
    let mut cov = Coverage::new();
    cov.states = 1;
    finish(&rep, Tier::Quick, cov, started)
}
