//! C15 — GUI-to-engine command text: grammar-generated lines, token prefixes, single-token
//! substitutions, spacing variants, all move texts; judged by a hand-written reference parser.

use crate::board_checks::short;
use crate::common::*;
use inkayaku_uci::parser::CommandParser;
use inkayaku_uci::{UciCommand, UciMove};
use refchess::fen::{classify, FenClass};
use serde_json::{json, Value};
use std::collections::HashSet;
use std::str::FromStr;
use std::sync::atomic::{AtomicU64, Ordering};
use std::time::Instant;

const STARTPOS: &str = "rnbqkbnr/pppppppp/8/8/8/8/PPPPPPPP/RNBQKBNR w KQkq - 0 1";
const GO_KEYS: [&str; 12] = ["searchmoves", "ponder", "wtime", "btime", "winc", "binc", "movestogo", "depth", "nodes", "mate", "movetime", "infinite"];

#[derive(Debug, Clone, PartialEq, Eq, Default)]
pub struct ExpGo {
    pub search_moves: Vec<String>,
    pub ponder: bool,
    pub wtime: Option<u64>,
    pub btime: Option<u64>,
    pub winc: Option<u64>,
    pub binc: Option<u64>,
    pub movestogo: Option<u64>,
    pub depth: Option<u64>,
    pub nodes: Option<u64>,
    pub mate: Option<u64>,
    pub movetime: Option<u64>,
    pub infinite: bool,
}

#[derive(Debug, Clone, PartialEq, Eq)]
pub enum ExpCmd {
    Uci,
    Debug(bool),
    IsReady,
    SetOption { name: String, value: Option<String> },
    RegisterLater,
    Register { name: String, code: String },
    UciNewGame,
    Position { fen: String, moves: Vec<String> },
    Go(ExpGo),
    Stop,
    PonderHit,
    Quit,
}

#[derive(Debug, Clone, PartialEq, Eq)]
pub enum Exp {
    Cmd(ExpCmd),
    Err(&'static str),
    Unspec(&'static str),
}

#[derive(PartialEq, Eq, Clone, Copy, Debug)]
pub enum Tok {
    Valid,
    Unspec,
    Bad,
}

pub fn classify_move_token(t: &str) -> Tok {
    let b = t.as_bytes();
    let sq_ok = |i: usize| b.len() > i + 1 && (b'a'..=b'h').contains(&b[i]) && (b'1'..=b'8').contains(&b[i + 1]);
    if !sq_ok(0) || !sq_ok(2) {
        return Tok::Bad;
    }
    match b.len() {
        4 => Tok::Valid,
        5 => match b[4] {
            b'q' | b'r' | b'b' | b'n' => Tok::Valid,
            b'k' | b'p' | b'Q' | b'R' | b'B' | b'N' | b'K' | b'P' => Tok::Unspec,
            _ => Tok::Bad,
        },
        _ => {
            // over-long: unspecified when the first five characters would be a move
            if !t.is_char_boundary(5) {
                return Tok::Bad;
            }
            match b[4] {
                b'q' | b'r' | b'b' | b'n' | b'k' | b'p' | b'Q' | b'R' | b'B' | b'N' | b'K' | b'P' => Tok::Unspec,
                _ => Tok::Bad,
            }
        }
    }
}

fn digits(s: &str) -> bool {
    !s.is_empty() && s.bytes().all(|c| c.is_ascii_digit())
}

/// milliseconds for wtime/btime/winc/binc/movetime
fn classify_duration(t: &str) -> (Tok, u64) {
    if digits(t) {
        match t.parse::<u128>() {
            Ok(v) if v <= i64::MAX as u128 => (Tok::Valid, v as u64),
            _ => (Tok::Unspec, 0),
        }
    } else if t.len() > 1 && (t.starts_with('-') || t.starts_with('+')) && digits(&t[1..]) {
        (Tok::Unspec, 0) // negative: clamped by design; explicit plus: convention
    } else {
        (Tok::Bad, 0)
    }
}

fn classify_count(t: &str) -> (Tok, u64) {
    if digits(t) {
        match t.parse::<u128>() {
            Ok(v) if v <= u64::MAX as u128 => (Tok::Valid, v as u64),
            _ => (Tok::Unspec, 0),
        }
    } else if t.len() > 1 && (t.starts_with('-') || t.starts_with('+')) && digits(&t[1..]) {
        (Tok::Unspec, 0)
    } else {
        (Tok::Bad, 0)
    }
}

/// The reference line parser: what the line spells, an error class, or "unspecified".
pub fn ref_parse(line: &str) -> Exp {
    // spacing AROUND the command (blanks, tabs, the line terminator the console delivers, a stray CR
    // or LF in front) is "arbitrary extra spacing"; other whitespace BETWEEN tokens stays unspecified
    let line = line.trim_matches(|c: char| c == ' ' || c == '\t' || c == '\n' || c == '\r' || c == '\x0b' || c == '\x0c');
    if line.chars().any(|c| c != ' ' && (c.is_whitespace() || c.is_control())) {
        return Exp::Unspec("non-space whitespace or control character");
    }
    let toks: Vec<&str> = line.split(' ').filter(|t| !t.is_empty()).collect();
    if toks.is_empty() {
        return Exp::Err("empty line");
    }
    let rest = &toks[1..];
    let simple = |c: ExpCmd| if rest.is_empty() { Exp::Cmd(c) } else { Exp::Unspec("trailing tokens after a complete command") };
    match toks[0] {
        "uci" => simple(ExpCmd::Uci),
        "isready" => simple(ExpCmd::IsReady),
        "ucinewgame" => simple(ExpCmd::UciNewGame),
        "stop" => simple(ExpCmd::Stop),
        "ponderhit" => simple(ExpCmd::PonderHit),
        "quit" => simple(ExpCmd::Quit),
        "debug" => match rest.first() {
            None => Exp::Err("debug without on/off"),
            Some(&"on") | Some(&"off") => {
                if rest.len() == 1 {
                    Exp::Cmd(ExpCmd::Debug(rest[0] == "on"))
                } else {
                    Exp::Unspec("trailing tokens after a complete command")
                }
            }
            Some(_) => Exp::Err("debug with a bad value"),
        },
        "setoption" => {
            if rest.first() != Some(&"name") {
                return Exp::Err("setoption without name");
            }
            let body = &rest[1..];
            if body.is_empty() {
                return Exp::Err("setoption without an option name");
            }
            if body[0] == "value" {
                return Exp::Unspec("option name starting with the token 'value'");
            }
            match body.iter().position(|t| *t == "value") {
                None => Exp::Cmd(ExpCmd::SetOption { name: body.join(" "), value: None }),
                Some(i) => {
                    let v = &body[i + 1..];
                    if v.is_empty() {
                        Exp::Err("setoption value without a value")
                    } else {
                        Exp::Cmd(ExpCmd::SetOption { name: body[..i].join(" "), value: Some(v.join(" ")) })
                    }
                }
            }
        }
        "register" => match rest.first() {
            None => Exp::Err("register without arguments"),
            Some(&"later") => {
                if rest.len() == 1 {
                    Exp::Cmd(ExpCmd::RegisterLater)
                } else {
                    Exp::Unspec("trailing tokens after a complete command")
                }
            }
            Some(&"name") => {
                let body = &rest[1..];
                if body.first() == Some(&"code") && body.len() > 1 {
                    return Exp::Unspec("name starting with the token 'code'");
                }
                match body.iter().position(|t| *t == "code") {
                    Some(i) if i >= 1 && i + 1 < body.len() => Exp::Cmd(ExpCmd::Register { name: body[..i].join(" "), code: body[i + 1..].join(" ") }),
                    Some(_) => Exp::Err("register with empty name or code"),
                    None => {
                        if body.is_empty() {
                            Exp::Err("register name without a name")
                        } else {
                            Exp::Unspec("register with a name only")
                        }
                    }
                }
            }
            Some(&"code") => Exp::Unspec("register with a code only"),
            Some(_) => Exp::Err("register with an unknown argument"),
        },
        "position" => {
            let (fen, after): (String, &[&str]) = match rest.first() {
                None => return Exp::Err("position without arguments"),
                Some(&"startpos") => (STARTPOS.to_string(), &rest[1..]),
                Some(&"fen") => {
                    let body = &rest[1..];
                    let end = body.iter().position(|t| *t == "moves").unwrap_or(body.len());
                    if end == 0 {
                        return Exp::Err("position fen without a FEN");
                    }
                    let text = body[..end].join(" ");
                    match classify(&text) {
                        FenClass::Valid { .. } => (text, &body[end..]),
                        FenClass::Invalid(_) => return Exp::Err("bad FEN"),
                        FenClass::Unspecified { .. } => return Exp::Unspec("FEN on which conventions differ"),
                    }
                }
                Some(_) => return Exp::Err("position with neither startpos nor fen"),
            };
            if after.is_empty() {
                return Exp::Cmd(ExpCmd::Position { fen, moves: Vec::new() });
            }
            if after[0] != "moves" {
                return Exp::Unspec("trailing tokens after a complete command");
            }
            let mut moves = Vec::new();
            let mut unspec = false;
            for t in &after[1..] {
                match classify_move_token(t) {
                    Tok::Valid => moves.push(t.to_string()),
                    Tok::Unspec => unspec = true,
                    Tok::Bad => return Exp::Err("bad move"),
                }
            }
            if unspec {
                Exp::Unspec("move token on which conventions differ")
            } else {
                Exp::Cmd(ExpCmd::Position { fen, moves })
            }
        }
        "go" => {
            let mut g = ExpGo::default();
            let mut seen: HashSet<&str> = HashSet::new();
            let mut unspec: Option<&'static str> = None;
            let mut i = 0;
            while i < rest.len() {
                let k = rest[i];
                i += 1;
                if !GO_KEYS.contains(&k) {
                    return match unspec {
                        Some(u) => Exp::Unspec(u),
                        None => Exp::Unspec("unknown token where a go parameter was expected"),
                    };
                }
                if !seen.insert(k) {
                    return Exp::Err("duplicated go parameter");
                }
                match k {
                    "ponder" => g.ponder = true,
                    "infinite" => g.infinite = true,
                    "searchmoves" => {
                        while i < rest.len() && !GO_KEYS.contains(&rest[i]) {
                            match classify_move_token(rest[i]) {
                                Tok::Valid => g.search_moves.push(rest[i].to_string()),
                                Tok::Unspec => unspec = Some("move token on which conventions differ"),
                                Tok::Bad => return Exp::Err("bad move"),
                            }
                            i += 1;
                        }
                    }
                    _ => {
                        if i >= rest.len() {
                            return Exp::Err("go parameter without its value");
                        }
                        let v = rest[i];
                        i += 1;
                        let is_dur = matches!(k, "wtime" | "btime" | "winc" | "binc" | "movetime");
                        let (c, val) = if is_dur { classify_duration(v) } else { classify_count(v) };
                        match c {
                            Tok::Bad => return Exp::Err("bad number"),
                            Tok::Unspec => unspec = Some("number on which conventions differ (sign, range)"),
                            Tok::Valid => {}
                        }
                        let slot = match k {
                            "wtime" => &mut g.wtime,
                            "btime" => &mut g.btime,
                            "winc" => &mut g.winc,
                            "binc" => &mut g.binc,
                            "movestogo" => &mut g.movestogo,
                            "depth" => &mut g.depth,
                            "nodes" => &mut g.nodes,
                            "mate" => &mut g.mate,
                            _ => &mut g.movetime,
                        };
                        *slot = Some(val);
                    }
                }
            }
            match unspec {
                Some(u) => Exp::Unspec(u),
                None => Exp::Cmd(ExpCmd::Go(g)),
            }
        }
        _ => Exp::Err("first word is not a UCI command"),
    }
}

fn move_text(m: &UciMove) -> String {
    let mut s = format!("{}{}", m.source.fen, m.target.fen);
    if let Some(p) = &m.promote_to {
        s.push(p.fen);
    }
    s
}

/// what the subject returned, in the reference's vocabulary (field by field)
fn to_exp(c: &UciCommand) -> ExpCmd {
    match c {
        UciCommand::Uci => ExpCmd::Uci,
        UciCommand::SetDebug { debug } => ExpCmd::Debug(*debug),
        UciCommand::IsReady => ExpCmd::IsReady,
        UciCommand::SetOption { name } => ExpCmd::SetOption { name: name.clone(), value: None },
        UciCommand::SetOptionValue { name, value } => ExpCmd::SetOption { name: name.clone(), value: Some(value.clone()) },
        UciCommand::RegisterLater => ExpCmd::RegisterLater,
        UciCommand::Register { name, code } => ExpCmd::Register { name: name.clone(), code: code.clone() },
        UciCommand::UciNewGame => ExpCmd::UciNewGame,
        UciCommand::PositionFrom { fen, moves } => ExpCmd::Position { fen: fen.fen.clone(), moves: moves.iter().map(move_text).collect() },
        UciCommand::Go { go } => ExpCmd::Go(ExpGo {
            search_moves: go.search_moves.iter().map(move_text).collect(),
            ponder: go.ponder,
            wtime: go.white_time.map(|d| d.as_millis() as u64),
            btime: go.black_time.map(|d| d.as_millis() as u64),
            winc: go.white_increment.map(|d| d.as_millis() as u64),
            binc: go.black_increment.map(|d| d.as_millis() as u64),
            movestogo: go.moves_to_go,
            depth: go.depth,
            nodes: go.nodes,
            mate: go.mate,
            movetime: go.move_time.map(|d| d.as_millis() as u64),
            infinite: go.infinite,
        }),
        UciCommand::Stop => ExpCmd::Stop,
        UciCommand::PonderHit => ExpCmd::PonderHit,
        UciCommand::Quit => ExpCmd::Quit,
    }
}

fn cmd_name(c: &ExpCmd) -> &'static str {
    match c {
        ExpCmd::Uci => "uci",
        ExpCmd::Debug(_) => "debug",
        ExpCmd::IsReady => "isready",
        ExpCmd::SetOption { .. } => "setoption",
        ExpCmd::RegisterLater => "register_later",
        ExpCmd::Register { .. } => "register",
        ExpCmd::UciNewGame => "ucinewgame",
        ExpCmd::Position { .. } => "position",
        ExpCmd::Go(_) => "go",
        ExpCmd::Stop => "stop",
        ExpCmd::PonderHit => "ponderhit",
        ExpCmd::Quit => "quit",
    }
}

fn go_diff(e: &ExpGo, a: &ExpGo) -> String {
    let mut d = Vec::new();
    macro_rules! f {
        ($n:ident) => {
            if e.$n != a.$n {
                d.push(stringify!($n));
            }
        };
    }
    f!(search_moves);
    f!(ponder);
    f!(wtime);
    f!(btime);
    f!(winc);
    f!(binc);
    f!(movestogo);
    f!(depth);
    f!(nodes);
    f!(mate);
    f!(movetime);
    f!(infinite);
    d.join("+")
}

pub fn judge_line(rep: &Reporter, line: &str, stats: &[AtomicU64; 3]) {
    let exp = ref_parse(line);
    rep.sample(|| json!({"line": line, "reference": format!("{:?}", exp).chars().take(200).collect::<String>()}));
    let got = guarded(|| CommandParser::new(line).parse());
    let case = |extra: Value| json!({"kind": "uci_line", "line": line, "expected": format!("{:?}", exp).chars().take(300).collect::<String>(), "detail": extra});
    let got = match got {
        Ok(g) => g,
        Err(m) => {
            rep.report(format!("panic:{}", short(&m)), case(json!({"panic": m})));
            return;
        }
    };
    match &exp {
        Exp::Cmd(e) => {
            stats[0].fetch_add(1, Ordering::Relaxed);
            match &got {
                Ok(c) => {
                    let a = to_exp(c);
                    if a != *e {
                        let sig = match (e, &a) {
                            (ExpCmd::Go(eg), ExpCmd::Go(ag)) => format!("misparsed:go:{}", go_diff(eg, ag)),
                            _ if cmd_name(e) == cmd_name(&a) => format!("misparsed:{}", cmd_name(e)),
                            _ => format!("misread_as_other_command:{}->{}", cmd_name(e), cmd_name(&a)),
                        };
                        rep.report(sig, case(json!({"actual": format!("{:?}", a).chars().take(300).collect::<String>()})));
                    }
                }
                Err(err) => rep.report(format!("rejects_well_formed:{}", cmd_name(e)), case(json!({"error": format!("{:?}", err)}))),
            }
        }
        Exp::Err(why) => {
            stats[1].fetch_add(1, Ordering::Relaxed);
            if let Ok(c) = &got {
                rep.report(format!("accepts_malformed:{}", why), case(json!({"actual": format!("{:?}", to_exp(c)).chars().take(300).collect::<String>()})));
            }
        }
        Exp::Unspec(_) => {
            stats[2].fetch_add(1, Ordering::Relaxed);
        }
    }
}

/// the other public way from text to commands: `ConsoleUciRx` (what the binary's stdin loop is).
/// The line, newline-terminated as `read_line` delivers it, followed by `quit`: the callback must
/// receive exactly what the parser returns for that text, then the quit.
pub fn judge_line_via_console(rep: &Reporter, line: &str, n: &AtomicU64) {
    use inkayaku_uci::console::{ConsoleUciRx, ConsoleUciRxError};
    use std::cell::RefCell;
    if line.contains('\n') || line.contains('\r') {
        return;
    }
    n.fetch_add(1, Ordering::Relaxed);
    let raw = format!("{}\n", line);
    let describe = |r: &Result<UciCommand, String>| -> String {
        match r {
            Ok(c) => format!("Ok({:?})", to_exp(c)),
            Err(e) => format!("Err({})", e),
        }
    };
    let direct: Result<UciCommand, String> = match guarded(|| CommandParser::new(&raw).parse()) {
        Ok(r) => r.map_err(|e| format!("{:?}", e)),
        Err(_) => return, // a panicking parser is judge_line's finding
    };
    let feed = RefCell::new(vec![raw.clone(), "quit\n".to_string()].into_iter());
    let got: RefCell<Vec<Result<UciCommand, String>>> = RefCell::new(Vec::new());
    let r = guarded(|| {
        let rx = ConsoleUciRx::new(
            || Ok(feed.borrow_mut().next().unwrap_or_else(|| "quit\n".to_string())),
            |c: Result<UciCommand, ConsoleUciRxError>| {
                let item = match c {
                    Ok(c) => Ok(c),
                    Err(ConsoleUciRxError::CommandParseError(e)) => Err(format!("{:?}", e)),
                    Err(other) => Err(format!("system error: {:?}", other)),
                };
                let mut g = got.borrow_mut();
                if g.len() < 8 {
                    g.push(item);
                }
            },
        );
        rx.start();
    });
    let case = |extra: Value| json!({"kind": "uci_console_line", "line": line, "detail": extra});
    if let Err(m) = r {
        rep.report(format!("console_reader:panic:{}", short(&m)), case(json!({"panic": m})));
        return;
    }
    let got = got.into_inner();
    let want_len = if matches!(direct, Ok(UciCommand::Quit)) { 1 } else { 2 };
    let first_ok = got.first().map(|g| describe(g) == describe(&direct)).unwrap_or(false);
    if !first_ok || got.len() != want_len {
        let sig = if got.len() < want_len && matches!(got.first(), Some(Ok(UciCommand::Quit))) { "console_reader:line_read_as_quit" } else if !first_ok { "console_reader:differs_from_parser" } else { "console_reader:wrong_number_of_commands" };
        rep.report(sig.to_string(), case(json!({"parser": describe(&direct), "delivered_by_the_reader": got.iter().map(|g| describe(g)).collect::<Vec<_>>()})));
    }
}

fn judge_move_text(rep: &Reporter, s: &str, stats: &[AtomicU64; 3]) {
    let class = classify_move_token(s);
    let got = guarded(|| UciMove::from_str(s));
    let case = |extra: Value| json!({"kind": "move_text", "text": s, "class": format!("{:?}", class), "detail": extra});
    match got {
        Err(m) => rep.report(format!("panic:move_text:{}", short(&m)), case(json!({"panic": m}))),
        Ok(r) => match class {
            Tok::Valid => {
                stats[0].fetch_add(1, Ordering::Relaxed);
                match r {
                    Ok(m) => {
                        if move_text(&m) != s {
                            rep.report("move_text:misparsed".to_string(), case(json!({"fields": move_text(&m)})));
                        }
                        // format -> parse -> equal
                        let shown = guarded(|| m.to_string());
                        match shown {
                            Ok(t) => {
                                if t != s {
                                    rep.report("move_text:display_differs".to_string(), case(json!({"displayed": t})));
                                }
                                if UciMove::from_str(&t).ok().as_ref() != Some(&m) {
                                    rep.report("move_text:round_trip".to_string(), case(json!({"displayed": t})));
                                }
                            }
                            Err(p) => rep.report(format!("panic:move_display:{}", short(&p)), case(json!({"panic": p}))),
                        }
                    }
                    Err(_) => rep.report("move_text:rejects_valid".to_string(), case(json!({}))),
                }
            }
            Tok::Bad => {
                stats[1].fetch_add(1, Ordering::Relaxed);
                if let Ok(m) = r {
                    rep.report("move_text:accepts_malformed".to_string(), case(json!({"fields": move_text(&m)})));
                }
            }
            Tok::Unspec => {
                stats[2].fetch_add(1, Ordering::Relaxed);
                if let Ok(m) = r {
                    // if accepted, it must round trip through its own formatting
                    let t = m.to_string();
                    if UciMove::from_str(&t).ok().as_ref() != Some(&m) {
                        rep.report("move_text:round_trip".to_string(), case(json!({"displayed": t})));
                    }
                }
            }
        },
    }
}

const FENS: &[&str] = &[
    "rnbqkbnr/pppppppp/8/8/8/8/PPPPPPPP/RNBQKBNR w KQkq - 0 1",
    "rnbqkbnr/pp1ppppp/8/2p5/4P3/5N2/PPPP1PPP/RNBQKB1R b KQkq - 1 2",
    "r3k2r/p1ppqpb1/bn2pnp1/3PN3/1p2P3/2N2Q1p/PPPBBPPP/R3K2R w KQkq - 0 1",
    "8/2p5/3p4/KP5r/1R3p1k/8/4P1P1/8 w - - 0 1",
    "rnbqkbnr/ppp1p1pp/8/3pPp2/8/8/PPPP1PPP/RNBQKBNR w KQkq f6 0 3",
    "r3k2r/8/8/8/8/8/8/R3K2R b Kq - 99 120",
    "4k3/8/8/8/8/8/8/4K2R w K - 100 4000",
    "n1n5/PPPk4/8/8/8/8/4Kppp/5N1N b - - 0 1",
    "8/8/8/2k5/3Pp3/8/8/4K3 b - d3 0 57",
    "rnbq1rk1/pp2ppbp/3p1np1/2p5/2PPP3/2N2N2/PP2BPPP/R1BQ1RK1 w - c6 0 7",
    "1k6/8/8/8/8/8/8/R3K3 w Q - 3 9",
    "4k2r/8/8/8/8/8/8/4K3 b k - 7 7",
];

fn base_lines(tier: Tier) -> Vec<String> {
    let mut v: Vec<String> = Vec::new();
    for c in ["uci", "isready", "ucinewgame", "stop", "ponderhit", "quit"] {
        v.push(c.to_string());
        v.push(format!("{} xyz", c));
    }
    for l in [
        "debug on", "debug off", "debug", "debug maybe", "debug on off", "setoption", "setoption name", "setoption name Hash", "setoption name Hash value 128", "setoption name Clear Hash", "setoption name Nalimov Path value c:\\chess\\tb\\4;c:\\chess\\tb\\5", "setoption name Style value Risky Mode",
        "setoption name Hash value", "setoption value 3", "setoption Hash", "register", "register later", "register name Stefan MK code 4359874324", "register name Stefan", "register code 1234", "register name code", "register name A code", "register foo",
        "position", "position startpos", "position startpos moves", "position fen", "position fen moves e2e4", "position foo", "position startpos e2e4", "go", "",
    ] {
        v.push(l.to_string());
    }
    // go: all 4096 parameter subsets in canonical order
    let val = |k: &str| -> &'static str {
        match k {
            "searchmoves" => " e2e4 g1f3",
            "wtime" => " 60001",
            "btime" => " 60000",
            "winc" => " 1001",
            "binc" => " 1000",
            "movestogo" => " 40",
            "depth" => " 11",
            "nodes" => " 20000",
            "mate" => " 3",
            "movetime" => " 999",
            _ => "",
        }
    };
    for mask in 0..4096u32 {
        let mut l = String::from("go");
        for (i, k) in GO_KEYS.iter().enumerate() {
            if mask & (1 << i) != 0 {
                l.push(' ');
                l.push_str(k);
                l.push_str(val(k));
            }
        }
        v.push(l);
    }
    // every subset continued by one more parameter, whichever: a new one (one more value to read) or
    // one that is already there (a duplicate, wherever it stands: must be an error)
    for mask in 0..4096u32 {
        let mut l = String::from("go");
        for (i, k) in GO_KEYS.iter().enumerate() {
            if mask & (1 << i) != 0 {
                l.push(' ');
                l.push_str(k);
                l.push_str(val(k));
            }
        }
        for k in GO_KEYS.iter() {
            v.push(format!("{} {}{}", l, k, val(k)));
        }
    }
    // all ordered pairs and triples (order independence)
    for a in 0..12 {
        for b in 0..12 {
            if a == b {
                continue;
            }
            v.push(format!("go {}{} {}{}", GO_KEYS[a], val(GO_KEYS[a]), GO_KEYS[b], val(GO_KEYS[b])));
            for c in 0..12 {
                if c == a || c == b {
                    continue;
                }
                v.push(format!("go {}{} {}{} {}{}", GO_KEYS[a], val(GO_KEYS[a]), GO_KEYS[b], val(GO_KEYS[b]), GO_KEYS[c], val(GO_KEYS[c])));
            }
        }
    }
    // duplicated parameters
    for a in 0..12 {
        v.push(format!("go {}{} {}{}", GO_KEYS[a], val(GO_KEYS[a]), GO_KEYS[a], val(GO_KEYS[a])));
        for b in 0..12 {
            if a != b {
                v.push(format!("go {}{} {}{} {}{}", GO_KEYS[a], val(GO_KEYS[a]), GO_KEYS[b], val(GO_KEYS[b]), GO_KEYS[a], val(GO_KEYS[a])));
            }
        }
    }
    // values
    let values = ["0", "1", "-5", "60000", "9223372036854775807", "9223372036854775808", "18446744073709551615", "18446744073709551616", "x", "", "+7", "007", "1.5", "0x10", "١٢"];
    for k in ["wtime", "btime", "winc", "binc", "movestogo", "depth", "nodes", "mate", "movetime"] {
        for x in values {
            v.push(format!("go {} {}", k, x));
            v.push(format!("go {} {} infinite", k, x));
            v.push(format!("go ponder {} {}", k, x));
        }
    }
    // searchmoves lists of length 0..3 followed by each keyword (or the end)
    let mv = ["e2e4", "e7e8q", "a1h8", "h4h6q", "e7e8k", "e2e4qq", "z9z9", "E2E4"];
    let mut lists: Vec<Vec<&str>> = vec![vec![]];
    for a in mv {
        lists.push(vec![a]);
        for b in mv {
            lists.push(vec![a, b]);
            if tier == Tier::Thorough || (a != "z9z9" && b != "E2E4") {
                for c in ["e2e4", "e7e8q", "z9z9"] {
                    lists.push(vec![a, b, c]);
                }
            }
        }
    }
    for l in &lists {
        let body = l.join(" ");
        let sep = if body.is_empty() { "" } else { " " };
        v.push(format!("go searchmoves{}{}", sep, body));
        for k in GO_KEYS.iter().skip(1) {
            v.push(format!("go searchmoves{}{} {}{}", sep, body, k, val(k)));
        }
        v.push(format!("go depth 3 searchmoves{}{}", sep, body));
    }
    // position
    for f in FENS {
        let four: String = f.split(' ').take(4).collect::<Vec<_>>().join(" ");
        for fen in [f.to_string(), four] {
            for l in lists.iter().take(if tier == Tier::Quick { 90 } else { lists.len() }) {
                let body = l.join(" ");
                if body.is_empty() {
                    v.push(format!("position fen {}", fen));
                    v.push(format!("position fen {} moves", fen));
                } else {
                    v.push(format!("position fen {} moves {}", fen, body));
                }
            }
        }
    }
    for l in &lists {
        let body = l.join(" ");
        if !body.is_empty() {
            v.push(format!("position startpos moves {}", body));
        }
    }
    let long: Vec<&str> = std::iter::repeat(["g1f3", "g8f6", "f3g1", "f6g8"]).take(50).flatten().collect();
    v.push(format!("position startpos moves {}", long.join(" ")));
    v.push(format!("position fen {} moves {}", FENS[0], long.join(" ")));
    // bad FENs inside position
    for bad in ["rnbqkbnr/pp1ppppp/8/44/4P3/5N2/PPPP1PPP/RNBQKB1R b - - 1 2", "rnbqkbnr/pppppppp/8/8/8/8/PPPPPPPP/RNBQKBNR w KQkq - 0", "rnbqkbnr/pppppppp/8/8/8/8/PPPPPPPP/RNBQKBNR x KQkq - 0 1", "8/8/8/8/8/8/8 w - - 0 1", "startpos", "rnbqkbnr/pppppppp/8/8/8/8/PPPPPPPP/RNBQKBNR w KQkq - 0 99999999999"] {
        v.push(format!("position fen {}", bad));
        v.push(format!("position fen {} moves e2e4", bad));
    }
    v
}

const SUBST: &[&str] = &[
    "go", "position", "uci", "quit", "stop", "moves", "fen", "startpos", "searchmoves", "ponder", "wtime", "depth", "infinite", "movetime", "name", "value", "code", "later", "on", "off", "GO", "Depth", "wtim", "infinit", "e2e4", "0", "-1", "x", "é", "a\tb",
];

pub fn run(tier: Tier) -> i32 {
    let started = Instant::now();
    let rep = Reporter::new("C15");
    let base = base_lines(tier);
    let mut lines: Vec<String> = Vec::new();
    let mut seen: HashSet<String> = HashSet::new();
    let mut push = |s: String, lines: &mut Vec<String>| {
        if seen.insert(s.clone()) {
            lines.push(s);
        }
    };
    let n_base = base.len();
    for l in &base {
        push(l.clone(), &mut lines);
        // spacing variants
        push(format!(" {}", l), &mut lines);
        push(format!("{} ", l), &mut lines);
        push(format!("   {}   ", l), &mut lines);
        push(l.replace(' ', "  "), &mut lines);
        push(l.replace(' ', "   "), &mut lines);
        push(l.replace(' ', "\t"), &mut lines);
        // whitespace of other kinds around the command
        push(format!("\t{}", l), &mut lines);
        push(format!("{}\r\n", l), &mut lines);
        push(format!("\r\n{}\r\n", l), &mut lines);
        push(format!(" \t {}\t", l), &mut lines);
        push(format!("\x0b{}\x0c", l), &mut lines);
        // every token prefix
        let toks: Vec<&str> = l.split(' ').filter(|t| !t.is_empty()).collect();
        for n in 0..toks.len() {
            push(toks[..n].join(" "), &mut lines);
        }
    }
    // single-token substitutions (on lines of at most 14 tokens; all lines in thorough)
    let mut n_subst = 0u64;
    for l in &base {
        let toks: Vec<&str> = l.split(' ').filter(|t| !t.is_empty()).collect();
        if toks.len() > 14 && tier == Tier::Quick {
            continue;
        }
        if tier == Tier::Quick && toks.len() > 6 && toks[0] == "go" && (n_subst % 7 != 0) {
            n_subst += 1;
            continue;
        }
        n_subst += 1;
        for i in 0..toks.len() {
            for s in SUBST {
                if toks[i] != *s {
                    let mut t = toks.clone();
                    t[i] = s;
                    push(t.join(" "), &mut lines);
                }
            }
        }
    }
    // length sweep: the repeatable tails of the grammar (move lists, searchmoves, option names and
    // values) at every magnitude of token count, with a parameter that has to be read AFTER the long
    // list and with an ill-typed token at the very end / in the middle of it
    let n_before_sweep = lines.len();
    {
        let mv = ["e2e4", "e7e5", "g1f3", "b8c6", "a7a8q", "h2h1n", "e1g1", "d7d5"];
        let mut lens: Vec<usize> = (0..=40).collect();
        let top = if tier == Tier::Quick { 16 } else { 18 };
        for k in 6..=top {
            for d in [-1i64, 0, 1] {
                lens.push(((1i64 << k) + d) as usize);
            }
        }
        for &n in &lens {
            let list: Vec<&str> = (0..n).map(|i| mv[(i * 5 + i / 8) % mv.len()]).collect();
            let joined = list.join(" ");
            let words: Vec<String> = (0..n.max(1)).map(|i| format!("w{}", i % 10)).collect();
            push(format!("position startpos moves {}", joined), &mut lines);
            push(format!("position fen rnbqkbnr/pppppppp/8/8/8/8/PPPPPPPP/RNBQKBNR w KQkq - 0 1 moves {}", joined), &mut lines);
            push(format!("go searchmoves {} depth 3", joined), &mut lines);
            push(format!("go wtime 1000 searchmoves {} btime 2000", joined), &mut lines);
            push(format!("setoption name {} value {}", words.join(" "), words.join(" ")), &mut lines);
            push(format!("setoption name Hash value {}", words.join(" ")), &mut lines);
            if n > 0 {
                // the same with one ill-typed token: last, first, middle
                for bad_at in [n - 1, 0, n / 2] {
                    let mut l2 = list.clone();
                    l2[bad_at] = "e2e9";
                    push(format!("position startpos moves {}", l2.join(" ")), &mut lines);
                    push(format!("go searchmoves {} depth 3", l2.join(" ")), &mut lines);
                }
                push(format!("go searchmoves {} depth x", joined), &mut lines);
                push(format!("go searchmoves {} depth 3 depth 4", joined), &mut lines);
            }
        }
    }
    // free-text slots filled with FRAGMENTS of the grammar's own keywords: every substring of name,
    // value, code, moves, fen, later (and the capitalised forms) as a word of an option name, an option
    // value, a registration name or code — first, middle, last and only word. A keyword ends a
    // free-text field only as a whole token.
    {
        let mut frags: Vec<String> = Vec::new();
        for kw in ["name", "value", "code", "moves", "fen", "later", "startpos"] {
            let c: Vec<char> = kw.chars().collect();
            for a in 0..c.len() {
                for b in a + 1..=c.len() {
                    let f: String = c[a..b].iter().collect();
                    let mut cap = f.clone();
                    if let Some(first) = cap.get_mut(0..1) {
                        first.make_ascii_uppercase();
                    }
                    for x in [f, cap] {
                        if !frags.contains(&x) {
                            frags.push(x);
                        }
                    }
                }
            }
        }
        for w in &frags {
            for l in [
                format!("setoption name {}", w),
                format!("setoption name Foo {}", w),
                format!("setoption name {} Foo", w),
                format!("setoption name Foo {} Bar value 1", w),
                format!("setoption name Foo {} value 1", w),
                format!("setoption name {} Foo value 1", w),
                format!("setoption name Foo value {}", w),
                format!("setoption name Foo value x {}", w),
                format!("setoption name Foo value {} x", w),
                format!("setoption name {} value {}", w, w),
                format!("register name {} code 1", w),
                format!("register name Foo {} code 1", w),
                format!("register name {} Foo code 1", w),
                format!("register name Foo {} Bar code 1", w),
                format!("register name Foo code {}", w),
                format!("register name Foo code 1 {}", w),
                format!("register name Foo code {} 1", w),
                format!("position fen rnbqkbnr/pppppppp/8/8/8/8/PPPPPPPP/RNBQKBNR w KQkq - 0 1 {} moves e2e4", w),
                format!("position fen {} moves e2e4", w),
            ] {
                push(l, &mut lines);
            }
        }
    }
    let n_sweep = lines.len() - n_before_sweep;
    let stats: [AtomicU64; 3] = Default::default();
    let t0 = Instant::now();
    par_map(&lines, |l| judge_line(&rep, l, &stats));
    let line_secs = t0.elapsed().as_secs_f64();
    // every line once more through the console reader (blank and blank-only lines included)
    let t_console = Instant::now();
    let console_n = AtomicU64::new(0);
    let mut console_lines: Vec<String> = lines.clone();
    for blank in ["", " ", "  ", "\t", " \t ", "\u{a0}", "\u{2003}"] {
        console_lines.push(blank.to_string());
    }
    par_map(&console_lines, |l| judge_line_via_console(&rep, l, &console_n));
    let console_secs = t_console.elapsed().as_secs_f64();

    // move texts
    let mstats: [AtomicU64; 3] = Default::default();
    let mut texts: Vec<String> = Vec::new();
    for from in 0..64u8 {
        for to in 0..64u8 {
            for suf in ["", "q", "r", "b", "n", "k", "p"] {
                texts.push(format!("{}{}{}", refchess::sq_name(from), refchess::sq_name(to), suf));
            }
        }
    }
    let n_moves = texts.len();
    let alpha = ['`', 'a', 'h', 'i', 'A', '0', '1', '8', '9', 'q', 'k', 'x', 'é'];
    let mut layer: Vec<String> = vec![String::new()];
    texts.push(String::new());
    for _ in 0..5 {
        let mut next = Vec::with_capacity(layer.len() * alpha.len());
        for s in &layer {
            for c in alpha {
                let mut t = s.clone();
                t.push(c);
                next.push(t);
            }
        }
        texts.extend(next.iter().cloned());
        layer = next;
    }
    par_map(&texts, |t| judge_move_text(&rep, t, &mstats));
    // complete sweep: every Unicode scalar value substituted at every character position of two
    // move tokens (a finite space: 1 112 064 scalars x 9 positions), and inside a go / position line
    // for the scalars whose low byte looks like a file or rank character
    let t1 = Instant::now();
    let scalars: Vec<u32> = (0..=0x10FFFFu32).filter(|c| char::from_u32(*c).is_some()).collect();
    let uni_n = AtomicU64::new(0);
    par_map_chunk(&scalars, 4096, |&c| {
        let ch = char::from_u32(c).unwrap();
        for base in ["e2e4", "a7b8q"] {
            let chars: Vec<char> = base.chars().collect();
            for i in 0..chars.len() {
                if chars[i] == ch {
                    continue;
                }
                let mut t = chars.clone();
                t[i] = ch;
                let s: String = t.into_iter().collect();
                uni_n.fetch_add(1, Ordering::Relaxed);
                judge_move_text(&rep, &s, &mstats);
                let low = (c & 0xff) as u8;
                if c > 0x7f && ((b'a'..=b'h').contains(&low) || (b'1'..=b'8').contains(&low)) && i < 4 {
                    judge_line(&rep, &format!("position startpos moves {}", s), &stats);
                    judge_line(&rep, &format!("go searchmoves {} depth 2", s), &stats);
                }
            }
        }
    });
    let uni_secs = t1.elapsed().as_secs_f64();

    let mut cov = Coverage::new();
    cov.states = (lines.len() + texts.len()) as u64;
    cov.transitions = cov.states;
    cov.traces_validated = cov.states;
    cov.set("grammar_base_lines", json!(n_base));
    cov.set("distinct_lines_incl_spacing_prefix_substitution_variants", json!(lines.len()));
    cov.set("length_sweep_lines_up_to_65537_or_262145_tokens", json!(n_sweep));
    cov.set("lines_also_fed_through_the_console_reader", json!({"lines": console_n.load(Ordering::Relaxed), "secs": console_secs}));
    cov.set("lines_expected_command", json!(stats[0].load(Ordering::Relaxed)));
    cov.set("lines_expected_error", json!(stats[1].load(Ordering::Relaxed)));
    cov.set("lines_unspecified_no_panic_only", json!(stats[2].load(Ordering::Relaxed)));
    cov.set("move_texts_all_64x64x7", json!(n_moves));
    cov.set("move_texts_total_incl_strings_len_le_5", json!(texts.len()));
    cov.set("move_texts_valid", json!(mstats[0].load(Ordering::Relaxed)));
    cov.set("move_texts_must_reject", json!(mstats[1].load(Ordering::Relaxed)));
    cov.set("move_texts_unspecified", json!(mstats[2].load(Ordering::Relaxed)));
    cov.set("secs_lines", json!(line_secs));
    cov.set("unicode_sweep_move_texts", json!({"scalars": scalars.len(), "texts": uni_n.load(Ordering::Relaxed), "secs": uni_secs}));
    cov.samples = vec![json!({"line": lines[40]}), json!({"line": lines[lines.len() / 2]}), json!({"line": lines[lines.len() - 1]}), json!({"move_text": texts[12345]})];
    cov.assumptions = vec!["reference line parser written from the UCI specification; trailing tokens, negative times, tabs and over-long move tokens are 'unspecified' (DESIGN §6.5)".into()];
    if stats[0].load(Ordering::Relaxed) == 0 || stats[1].load(Ordering::Relaxed) == 0 {
        rep.machinery("vacuous: no expected-command or no expected-error lines");
    }
    finish(&rep, tier, cov, started)
}

pub fn replay(case: &Value) -> i32 {
    let started = Instant::now();
    let rep = Reporter::new("C15");
    let stats: [AtomicU64; 3] = Default::default();
    match case["kind"].as_str().unwrap_or("") {
        "uci_line" => judge_line(&rep, case["line"].as_str().unwrap_or(""), &stats),
        "move_text" => judge_move_text(&rep, case["text"].as_str().unwrap_or(""), &stats),
        "uci_console_line" => judge_line_via_console(&rep, case["line"].as_str().unwrap_or(""), &stats[0]),
        _ => return 2,
    }
    println!("replay: {} violating case(s) reproduced", rep.violation_count());
    let mut cov = Coverage::new();
    cov.states = 1;
    finish(&rep, Tier::Quick, cov, started)
}
