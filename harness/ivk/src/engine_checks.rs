//! C08, C10, C11 — depth-limited searches of the real engine against the reference minimax.

#![cfg(inkayaku_verif)]
#![allow(dead_code)]

use crate::board_checks::short;
use crate::common::*;
use crate::engine_driver::*;
use crate::families::*;
use inkayaku_board::Bitboard;
use inkayaku_engine_core::verif;
use inkayaku_uci::Score;
use refchess::search::{mate_tables, RefSearch, RepRule, MATED_NOW};
use refchess::*;
use serde_json::{json, Value};
use std::collections::HashMap;
use std::sync::atomic::{AtomicU64, Ordering};
use std::sync::Mutex;
use std::time::Instant;

pub fn board_of(p: &Pos) -> Bitboard {
    Bitboard::from_fen_string(&p.to_fen()).expect("reference FEN accepted")
}

/// leaf values for the reference: the engine's own static evaluation through the hook
pub fn eval_hook(p: &Pos, has_legal: bool) -> i32 {
    // memo per thread: the engine's evaluation is a function of exactly these inputs
    // (placement, side, rights, e.p., both clocks, has-legal-move), all part of the memo key
    thread_local! {
        static MEMO: std::cell::RefCell<HashMap<(Key, u64, u64, bool), i32>> = std::cell::RefCell::new(HashMap::new());
    }
    let k = (p.key(), p.half, p.full, has_legal);
    if let Some(v) = MEMO.with(|m| m.borrow().get(&k).copied()) {
        return v;
    }
    let b = board_of(p);
    let v = if has_legal { verif::static_eval(&b) } else { verif::terminal_eval(&b) };
    let v = if p.stm == WHITE { v } else { -v };
    MEMO.with(|m| {
        let mut m = m.borrow_mut();
        if m.len() > 2_000_000 {
            m.clear();
        }
        m.insert(k, v);
    });
    v
}

/// (engine's horizon valuation, reference's) for the mover of `p`
pub fn quiescence_pair(p: &Pos) -> Result<(i32, i32), String> {
    thread_local! {
        static Q: std::cell::RefCell<Option<verif::Quiescence>> = std::cell::RefCell::new(None);
    }
    let b = board_of(p);
    let got = Q.with(|q| {
        let mut q = q.borrow_mut();
        let mut inst = q.take().unwrap_or_else(verif::Quiescence::new);
        let r = guarded(move || {
            let v = inst.value(b);
            (v, inst)
        });
        match r {
            Ok((v, inst)) => {
                *q = Some(inst);
                Ok(v)
            }
            Err(e) => Err(e), // the instance is dropped: a fresh one next time
        }
    })?;
    let eval = |q: &Pos, l: bool| eval_hook(q, l);
    let mut rs = RefSearch::new(&eval);
    Ok((got, rs.quiesce(p)))
}

/// the engine's horizon valuation of `p` on the window (alpha, beta)
pub fn quiescence_window(p: &Pos, alpha: i32, beta: i32) -> Result<i32, String> {
    thread_local! {
        static QW: std::cell::RefCell<Option<verif::Quiescence>> = std::cell::RefCell::new(None);
    }
    let b = board_of(p);
    QW.with(|q| {
        let mut q = q.borrow_mut();
        let mut inst = q.take().unwrap_or_else(verif::Quiescence::new);
        let r = guarded(move || {
            let v = inst.value_window(b, alpha, beta);
            (v, inst)
        });
        match r {
            Ok((v, inst)) => {
                *q = Some(inst);
                Ok(v)
            }
            Err(e) => Err(e),
        }
    })
}

#[derive(Debug, Clone, Default)]
pub struct SearchOut {
    pub score: Option<Score>,
    pub depth: Option<u32>,
    pub pv: Vec<String>,
    pub best: Option<String>,
    pub ponder: Option<String>,
    pub n_best: usize,
    pub problem: Option<String>,
    pub obs: GoObs,
}

pub fn position_line(p: &Pos, moves: &[String]) -> String {
    let mut l = format!("position fen {}", p.to_fen());
    if !moves.is_empty() {
        l.push_str(" moves ");
        l.push_str(&moves.join(" "));
    }
    l
}

/// inverse of `position_line` (also `position startpos ...`), through the reference
pub fn pos_of_position_line(l: &str) -> Option<Pos> {
    let t: Vec<&str> = l.split_whitespace().collect();
    let (mut p, mut i) = match t.get(1) {
        Some(&"startpos") => (Pos::startpos(), 2),
        Some(&"fen") => {
            let end = t.iter().position(|x| *x == "moves").unwrap_or(t.len());
            (Pos::from_fen(&t[2..end].join(" ")).ok()?, end)
        }
        _ => return None,
    };
    if t.get(i) == Some(&"moves") {
        i += 1;
        while i < t.len() {
            let m = p.find_legal_uci(t[i])?;
            p = p.make(&m);
            i += 1;
        }
    }
    Some(p)
}

pub fn run_go(sess: &mut Session, go_line: &str, plan: Plan, actions: &dyn Fn(u64) -> Vec<GateAction>) -> SearchOut {
    let obs = sess.go(go_line, plan, actions);
    let mut out = SearchOut::default();
    out.n_best = obs.best.len();
    if let Some((b, p)) = obs.best.last() {
        out.best = b.clone();
        out.ponder = p.clone();
    }
    // the last info that carries a score (iteration results; polls carry none)
    if let Some(i) = obs.infos.iter().rev().find(|i| i.score.is_some()) {
        out.score = i.score;
        out.depth = i.depth;
        out.pv = i.principal_variation.as_ref().map(|v| v.iter().map(mv_text).collect()).unwrap_or_default();
    }
    if let Some(m) = &obs.thread_died {
        out.problem = Some(format!("search thread died: {}", m));
    } else if obs.timed_out {
        out.problem = Some("no bestmove within the wall-clock watchdog".to_string());
    }
    out.obs = obs;
    out
}

fn no_actions(_k: u64) -> Vec<GateAction> {
    vec![]
}

/// one depth-limited search on `sess` (position command included)
pub fn search_depth(sess: &mut Session, p: &Pos, moves: &[String], depth: usize, extra: &str) -> SearchOut {
    sess.line(&position_line(p, moves));
    run_go(sess, &format!("go depth {}{}", depth, extra), Plan::virtual_rate(1000), &no_actions)
}

fn score_json(s: &Option<Score>) -> Value {
    match s {
        Some(s) => json!(score_text(s)),
        None => Value::Null,
    }
}

/// validate a principal variation: legal line from `p`; returns final position
fn walk_pv(p: &Pos, pv: &[String]) -> Result<Pos, String> {
    let mut q = p.clone();
    for (i, u) in pv.iter().enumerate() {
        match q.find_legal_uci(u) {
            Some(m) => q = q.make(&m),
            None => return Err(format!("pv move {} ({}) is not legal in {}", i, u, q.to_fen())),
        }
    }
    Ok(q)
}

// =======================================================================================
// C08

struct C08Ctx<'a> {
    rep: &'a Reporter,
    searches: AtomicU64,
    ref_nodes: AtomicU64,
    mates_checked: AtomicU64,
    positive_mate_reports: AtomicU64,
}

/// judge one finished search against the reference value
fn c08_judge(ctx: &C08Ctx, p: &Pos, depth: usize, out: &SearchOut, how: &str, use_plain: bool) {
    c08_judge_at(ctx, p, depth, out, how, use_plain, &[])
}

/// `prefix`: the UCI lines the engine received before the judged search (empty = fresh engine,
/// depths 1..d in sequence); recorded so that the replay drives the same session
fn c08_judge_at(ctx: &C08Ctx, p: &Pos, depth: usize, out: &SearchOut, how: &str, use_plain: bool, prefix: &[String]) {
    let fen = p.to_fen();
    let case = |extra: Value| {
        if prefix.is_empty() {
            json!({"kind": "search", "fen": fen, "depth": depth, "how": how, "detail": extra})
        } else {
            json!({"kind": "session", "fen": fen, "depth": depth, "how": how, "prefix": prefix, "detail": extra})
        }
    };
    ctx.searches.fetch_add(1, Ordering::Relaxed);
    if let Some(pr) = &out.problem {
        ctx.rep.report(format!("no_answer:{}", short(pr)), case(json!({"problem": pr})));
        return;
    }
    if out.n_best != 1 {
        ctx.rep.report("bestmove_count".to_string(), case(json!({"count": out.n_best})));
        return;
    }
    let eval = |q: &Pos, l: bool| eval_hook(q, l);
    let mut rs = RefSearch::new(&eval);
    let (value, roots) = if use_plain { rs.root(p, depth, None) } else { rs.root_ab(p, depth) };
    ctx.ref_nodes.fetch_add(rs.nodes, Ordering::Relaxed);
    let expected = verif::score_from_value(value, &board_of(p));
    ctx.rep.sample(|| json!({"fen": fen, "depth": depth, "how": how, "engine_score": score_json(&out.score), "reference_score": score_text(&expected), "bestmove": out.best}));
    if out.depth != Some(depth as u32) {
        ctx.rep.report("reported_depth_differs".to_string(), case(json!({"reported": out.depth})));
    }
    if out.score != Some(expected) {
        let kind = match (&out.score, &expected) {
            (Some(Score::Mate { .. }), Score::Mate { .. }) => "mate_distance",
            (Some(Score::Mate { .. }), _) | (_, Score::Mate { .. }) => "mate_vs_cp",
            _ => "cp",
        };
        ctx.rep.report(format!("score_differs:{}:depth{}", kind, depth), case(json!({"expected": score_text(&expected), "actual": score_json(&out.score), "best": out.best, "pv": out.pv, "reference_root_values": roots.iter().map(|(m, v)| json!([m.uci(), v])).collect::<Vec<_>>()})));
        return;
    }
    match &out.best {
        None => ctx.rep.report("null_bestmove".to_string(), case(json!({}))),
        Some(b) => match roots.iter().find(|(m, _)| m.uci() == *b) {
            None => ctx.rep.report("bestmove_not_legal".to_string(), case(json!({"best": b}))),
            Some((_, v)) => {
                if *v != value {
                    ctx.rep.report(format!("bestmove_does_not_attain_value:depth{}", depth), case(json!({"best": b, "its_value": v, "value": value})));
                }
            }
        },
    }
    judge_positive_mate(ctx.rep, &ctx.positive_mate_reports, p, out, &case);
}

/// whenever a positive `mate N` is reported, the PV must be 2N-1 legal plies ending in checkmate
fn judge_positive_mate(rep: &Reporter, counter: &AtomicU64, p: &Pos, out: &SearchOut, case: &dyn Fn(Value) -> Value) {
    if let Some(Score::Mate { mate_in }) = out.score {
        if mate_in > 0 {
            counter.fetch_add(1, Ordering::Relaxed);
            let want = (2 * mate_in - 1) as usize;
            match walk_pv(p, &out.pv) {
                Err(e) => rep.report("mate_pv_illegal".to_string(), case(json!({"pv": out.pv, "error": e}))),
                Ok(end) => {
                    if out.pv.len() != want {
                        rep.report("mate_pv_length".to_string(), case(json!({"mate_in": mate_in, "pv": out.pv})));
                    } else if !end.is_mate() {
                        rep.report("mate_pv_does_not_end_in_checkmate".to_string(), case(json!({"mate_in": mate_in, "pv": out.pv, "end": end.to_fen()})));
                    }
                }
            }
        }
    }
}

fn c08_positions(tier: Tier) -> Vec<Pos> {
    let tactical: Vec<Pos> = ROOT_FENS.iter().map(|f| Pos::from_fen(f).unwrap()).collect();
    let collect = Mutex::new(Vec::new());
    reach(&tactical, if tier == Tier::Quick { 1 } else { 2 }, &|p, _| collect.lock().unwrap().push(p.clone()));
    let mut v = collect.into_inner().unwrap();
    v.sort_by_key(|p| p.key());
    // far from the fifty-move limit, no history
    for p in v.iter_mut() {
        p.half = p.half.min(10);
    }
    let mut out: Vec<Pos> = v.into_iter().filter(|p| p.has_legal_move()).collect();
    let flips: Vec<Pos> = out.iter().step_by(5).map(|p| p.flip()).collect();
    out.extend(flips);
    // family slices
    let castle = CastleFam { blockers: 6 };
    let ep = EpFam::quick();
    let promo = PromoFam::quick();
    let stride = if tier == Tier::Quick { 40_009 } else { 4_001 };
    for f in [&castle as &dyn Family, &ep, &promo] {
        let mut i = 0;
        while i < f.len() {
            if let Some(p) = f.decode(i) {
                if p.has_legal_move() {
                    out.push(p.clone());
                    out.push(p.flip());
                }
            }
            i += stride;
        }
    }
    // lopsided positional balances: walls of pawns on the 6th and 7th rank with a centralised king
    // against a cornered king, a knight in the corner and rooks in front of the pawns (the static
    // evaluation differs from the material count by several hundred), and the flips
    {
        let mut n_wall = 0;
        let cap = if tier == Tier::Quick { 700 } else { 20_000 };
        'walls: for m7 in 0u32..256 {
            if !(3..=5).contains(&m7.count_ones()) {
                continue;
            }
            for m6 in [0u32, 0b0001_0000, 0b0100_0010, 0b1000_0001, 0b0010_0100] {
                for (wk, bk, bn) in [((4i8, 3i8), 63u8, 56u8), ((3, 3), 56, 63), ((4, 4), 63, 56)] {
                    if (m7 as usize * 31 + m6 as usize * 7 + wk.0 as usize) % (if tier == Tier::Quick { 5 } else { 1 }) != 0 {
                        continue;
                    }
                    let mut p = Pos::empty();
                    for f in 0..8i8 {
                        if m7 & (1 << f) != 0 {
                            p.board[sq_at(f, 1).unwrap() as usize] = pc(WHITE, PAWN);
                        }
                        if m6 & (1 << f) != 0 && m7 & (1 << f) == 0 {
                            p.board[sq_at(f, 2).unwrap() as usize] = pc(WHITE, PAWN);
                        }
                    }
                    // black rooks on the 8th rank on the first two files next to a pawn file that has no pawn below
                    let mut rooks = 0;
                    for f in 0..8i8 {
                        let next_to = (f > 0 && m7 & (1 << (f - 1)) != 0) || (f < 7 && m7 & (1 << (f + 1)) != 0);
                        if next_to && m7 & (1 << f) == 0 && rooks < 2 {
                            p.board[sq_at(f, 0).unwrap() as usize] = pc(BLACK, ROOK);
                            rooks += 1;
                        }
                    }
                    let wksq = sq_at(wk.0, wk.1).unwrap();
                    if p.board[wksq as usize] != EMPTY || p.board[bk as usize] != EMPTY || p.board[bn as usize] != EMPTY {
                        continue;
                    }
                    p.board[wksq as usize] = pc(WHITE, KING);
                    p.board[bk as usize] = pc(BLACK, KING);
                    p.board[bn as usize] = pc(BLACK, KNIGHT);
                    for stm in [WHITE, BLACK] {
                        p.stm = stm;
                        if p.is_legal_position() && p.has_legal_move() {
                            out.push(p.clone());
                            out.push(p.flip());
                            n_wall += 2;
                        }
                    }
                    if n_wall >= cap {
                        break 'walls;
                    }
                }
            }
        }
    }
    // promotion races for both colours: a pawn one step from promotion with a piece each side
    // (PAWN7 and its flips; five men, so the plain reference is affordable at every depth)
    let want: u64 = if tier == Tier::Quick { 3_000 } else { 30_000 };
    for p in pawn7_slice(want) {
        out.push(p.flip());
        out.push(p);
    }
    // capture-promotions and blocked pushes on every file, both colours
    for p in promo_slice(if tier == Tier::Quick { 500 } else { 8_000 }) {
        out.push(p.flip());
        out.push(p);
    }
    out
}

/// Roots in which the RIGHT promotion piece is not the queen: every position K + P (on its 7th rank)
/// v k, and v k + one more black man (p b n r q), white to move, in which some promotion move
/// stalemates as a queen (class "rook": as a rook it does not; class "minor": as a rook it does too)
/// or mates as a knight but not as a queen (class "knight"), decided by the reference. The engine
/// then has to print and play promotion letters other than q. Sorted, every k-th per class so that at
/// most `per_class` remain. Returns (position, class).
pub fn underpromotion_roots(per_class: usize) -> Vec<(Pos, &'static str)> {
    let found: Mutex<Vec<(Pos, &'static str)>> = Mutex::new(Vec::new());
    let per_x: u64 = 1 + 5 * 64;
    par_for(8 * 64 * 64 * per_x, 4096, |idx| {
        let mut i = idx;
        let x = i % per_x;
        i /= per_x;
        let bk = (i % 64) as u8;
        i /= 64;
        let wk = (i % 64) as u8;
        i /= 64;
        let pf = i as i8;
        let mut p = Pos::empty();
        let psq = match sq_at(pf, 1) {
            Some(s) => s,
            None => return,
        };
        p.board[psq as usize] = pc(WHITE, PAWN);
        if wk == psq || bk == psq || wk == bk {
            return;
        }
        p.board[wk as usize] = pc(WHITE, KING);
        p.board[bk as usize] = pc(BLACK, KING);
        if x > 0 {
            let kind = [PAWN, BISHOP, KNIGHT, ROOK, QUEEN][((x - 1) / 64) as usize];
            let sq = ((x - 1) % 64) as u8;
            if p.board[sq as usize] != EMPTY || (kind == PAWN && (row_of(sq) == 0 || row_of(sq) == 7)) {
                return;
            }
            p.board[sq as usize] = pc(BLACK, kind);
        }
        p.stm = WHITE;
        if !p.is_legal_position() {
            return;
        }
        let legal = p.legal();
        let mut class: Option<&'static str> = None;
        for m in legal.iter().filter(|m| m.promo == QUEEN) {
            let outcome = |kind: u8| -> (bool, bool) {
                // (stalemate, mate) after promoting to `kind` on the same square
                let mv = legal.iter().find(|o| o.from == m.from && o.to == m.to && o.promo == kind).copied();
                match mv {
                    Some(mv) => {
                        let q = p.make(&mv);
                        let none = !q.has_legal_move();
                        let chk = q.in_check(q.stm);
                        (none && !chk, none && chk)
                    }
                    None => (false, false),
                }
            };
            let (q_stale, q_mate) = outcome(QUEEN);
            let (r_stale, _) = outcome(ROOK);
            let (_, n_mate) = outcome(KNIGHT);
            if q_stale && r_stale {
                class = Some("minor");
            } else if q_stale && class.is_none() {
                class = Some("rook");
            } else if n_mate && !q_mate && class.is_none() {
                class = Some("knight");
            }
        }
        if let Some(c) = class {
            found.lock().unwrap().push((p, c));
        }
    });
    let mut all = found.into_inner().unwrap();
    all.sort_by_key(|(p, c)| (*c, p.key()));
    let mut out = Vec::new();
    for c in ["minor", "rook", "knight"] {
        let of: Vec<&(Pos, &'static str)> = all.iter().filter(|(_, k)| *k == c).collect();
        let step = (of.len() / per_class.max(1)).max(1);
        out.extend(of.into_iter().step_by(step).take(per_class).cloned());
    }
    out
}

/// A slice of PROMO (a pawn on its 7th rank on every file, edge files included, with enemy pieces of
/// every kind on the squares it can reach — blocked pushes, capture-promotions on either side — and
/// both kings anywhere) and, four fifths, of PROMOX (the same with a blocked push, one capture and
/// one more piece of every kind on each side): about `want` members, both sides to move.
pub fn promo_slice(want: u64) -> Vec<Pos> {
    let mut out = promo_slice_of(&PromoFam::thorough(), want / 5);
    out.extend(promo_slice_of(&PromoX, want - want / 5));
    out
}

fn promo_slice_of(fam: &dyn Family, want: u64) -> Vec<Pos> {
    let stride = (fam.len() / (want * 2).max(1)) | 1; // about half of the indices decode to legal positions
    let mut out = Vec::new();
    let mut i = 17 % stride;
    while i < fam.len() {
        if let Some(p) = fam.decode(i) {
            if p.has_legal_move() {
                out.push(p);
            }
        }
        i += stride;
    }
    out
}

/// A slice of PAWN7 (a pawn one step from promotion, both kings, one more piece per side).
/// Index layout: file, wk, bk, x, y | kind of x (4) | kind of y (4) | side to move (2); the
/// heavy-piece pair, where a promotion decides most, gets half of the slice.
fn pawn7_slice(want: u64) -> Vec<Pos> {
    let p7 = Pawn7;
    let mut out = Vec::new();
    let inner: u64 = 8 * 64 * 64 * 64 * 64;
    for kx in 0..4u64 {
        for ky in 0..4u64 {
            let share = if kx == 0 && ky == 0 { want / 2 } else { want / 30 };
            for stm in 0..2u64 {
                let n = (share / 2).max(1);
                let stride = (inner / n) | 1;
                let mut j = (kx * 7 + ky * 13 + stm) % stride;
                while j < inner {
                    let idx = j + inner * (kx + 4 * (ky + 4 * stm));
                    if let Some(p) = p7.decode(idx) {
                        if p.has_legal_move() {
                            out.push(p);
                        }
                    }
                    j += stride;
                }
            }
        }
    }
    out
}

pub fn run_c08(tier: Tier) -> i32 {
    let started = Instant::now();
    let rep = Reporter::new("C08");
    let ctx = C08Ctx { rep: &rep, searches: Default::default(), ref_nodes: Default::default(), mates_checked: Default::default(), positive_mate_reports: Default::default() };
    let mut positions = c08_positions(tier);
    if std::env::var("IVK_C08_ONLY_WINDOW").is_ok() {
        positions.truncate(16); // debugging aid: only the window-independence family at full size
    }
    let mut fams = Vec::new();
    // (1) fresh engine per position, depths 1..3 in sequence on that engine
    let t0 = Instant::now();
    let idx: Vec<usize> = (0..positions.len()).collect();
    par_map_fine(&idx, |&i| {
        let p = &positions[i];
        let heavy = p.piece_count() > 16;
        let mut sess = Session::new(false);
        for d in 1..=3usize {
            if d == 3 && heavy && tier == Tier::Quick && i % 12 != 0 {
                continue;
            }
            // the PAWN7 slice (five men, appended last): depths 1 and 2 in quick runs
            if d == 3 && tier == Tier::Quick && p.piece_count() == 5 && i % 10 != 0 && (0..8).any(|f| p.board[8 + f] == pc(WHITE, PAWN) || p.board[48 + f] == pc(BLACK, PAWN)) {
                continue;
            }
            let out = search_depth(&mut sess, p, &[], d, "");
            // plain minimax where it is affordable, the alpha-beta reference otherwise; both are
            // compared with each other on the affordable ones
            let plain = d <= 2 && !heavy || p.piece_count() <= 6;
            c08_judge(&ctx, p, d, &out, "fresh engine, depths 1..3 in sequence", plain);
            if plain && d <= 2 && (i % 6 == 0 || tier == Tier::Thorough) {
                let eval = |q: &Pos, l: bool| eval_hook(q, l);
                let mut a = RefSearch::new(&eval);
                let mut b = RefSearch::new(&eval);
                if a.root(p, d, None).0 != b.root_ab(p, d).0 {
                    rep.machinery(format!("reference plain and alpha-beta minimax disagree on {} depth {}", p.to_fen(), d));
                }
            }
        }
        sess.quit();
    });
    fams.push(json!({"family": "positions x depth 1..3 on a fresh engine", "positions": positions.len(), "secs": t0.elapsed().as_secs_f64()}));
    // (2) ordered pairs (prev, cur) over a 12-position pool: state carried over
    let t0 = Instant::now();
    let pool: Vec<Pos> = positions.iter().step_by((positions.len() / 12).max(1)).take(12).cloned().collect();
    let pairs: Vec<(usize, usize)> = (0..pool.len()).flat_map(|a| (0..pool.len()).map(move |b| (a, b))).collect();
    par_map_fine(&pairs, |&(a, b)| {
        let mut sess = Session::new(false);
        let _ = search_depth(&mut sess, &pool[a], &[], 3, "");
        let mut prefix = vec![position_line(&pool[a], &[]), "go depth 3".to_string()];
        for d in [2usize, 3] {
            let out = search_depth(&mut sess, &pool[b], &[], d, "");
            prefix.push(position_line(&pool[b], &[]));
            c08_judge_at(&ctx, &pool[b], d, &out, &format!("second search on an engine that searched {} before", pool[a].to_fen()), false, &prefix);
            prefix.push(format!("go depth {}", d));
        }
        sess.quit();
    });
    fams.push(json!({"family": "ordered pairs (prev, cur) on one engine", "pool": pool.len(), "pairs": pairs.len(), "secs": t0.elapsed().as_secs_f64()}));
    // (2b) the game goes on along the engine's own line: position P / go depth d1, then
    // `position P moves <first one or two moves of the announced line>` and, as the first search after
    // that, depth 1..3 — "irrespective of what was searched before on the same engine instance"
    // includes the searches a game is made of, where the new root is a node of the previous tree.
    let t0 = Instant::now();
    let cont_pool: Vec<Pos> = positions.iter().step_by(if tier == Tier::Quick { (positions.len() / 120).max(1) } else { (positions.len() / 600).max(1) }).cloned().collect();
    let d1s: &[usize] = &[3, 4, 5];
    let jobs: Vec<(usize, usize, usize)> = (0..cont_pool.len()).flat_map(|i| d1s.iter().flat_map(move |&d1| [1usize, 2].into_iter().map(move |c| (i, d1, c)))).collect();
    let cont_n = AtomicU64::new(0);
    par_map_fine(&jobs, |&(i, d1, c)| {
        let p = &cont_pool[i];
        if p.piece_count() > 16 && d1 > 4 {
            return;
        }
        let first = {
            let mut s = Session::new(false);
            let o = search_depth(&mut s, p, &[], d1, "");
            s.quit();
            o
        };
        if first.problem.is_some() || first.pv.len() < c {
            return;
        }
        let moves: Vec<String> = first.pv[..c].to_vec();
        let mut q = p.clone();
        for u in &moves {
            match q.find_legal_uci(u) {
                Some(m) => q = q.make(&m),
                None => {
                    rep.report("pv_illegal".to_string(), json!({"kind": "search", "fen": p.to_fen(), "depth": d1, "detail": {"pv": first.pv}}));
                    return;
                }
            }
        }
        if !q.has_legal_move() {
            return;
        }
        for d in 1..=3usize {
            if d == 3 && q.piece_count() > 16 && tier == Tier::Quick {
                continue;
            }
            let mut s = Session::new(false);
            let _ = search_depth(&mut s, p, &[], d1, "");
            let out = search_depth(&mut s, p, &moves, d, "");
            s.quit();
            cont_n.fetch_add(1, Ordering::Relaxed);
            let prefix = vec![position_line(p, &[]), format!("go depth {}", d1), position_line(p, &moves)];
            c08_judge_at(&ctx, &q, d, &out, &format!("first search after the game followed {} plies of the line announced at depth {}", c, d1), false, &prefix);
        }
    });
    fams.push(json!({"family": "first search after the game followed the engine's own line (1 or 2 plies), depths 1..3", "roots": cont_pool.len(), "searches": cont_n.load(Ordering::Relaxed), "secs": t0.elapsed().as_secs_f64()}));
    // (2c) the same placement given three times by FEN with different clocks and move numbers (what a
    // GUI does when the user steps through a game in analysis mode): the engine's bookkeeping is indexed
    // by the move number, so entries written by earlier commands and searches lie around the new root
    let t0 = Instant::now();
    // (movers that are worse off and have only pieces to move: a bogus draw value would be their best line)
    let clock_roots = ["6k1/5ppp/8/8/8/8/r4PPP/6K1 w - - 20 40", "4k3/8/8/3q4/8/8/8/3RK3 b - - 20 40", "8/8/8/4k3/8/8/3Q4/4K3 b - - 20 40", "r3k2r/8/8/8/8/8/8/R3K2R w - - 20 40", "6k1/5ppp/8/8/8/4B3/r7/6K1 w - - 20 40", "6k1/R7/4b3/8/8/8/5PPP/6K1 b - - 20 40", "3rk3/8/8/8/3Q4/8/8/4K3 b - - 20 40"];
    let clock_sets: [(u64, u64); 5] = [(20, 40), (20, 41), (20, 43), (20, 42), (6, 41)];
    let mut clock_jobs: Vec<(usize, [usize; 3], usize)> = Vec::new();
    for r in 0..clock_roots.len() {
        for a in 0..5 {
            for b in 0..5 {
                for c in 0..5 {
                    for d in 1..=3usize {
                        if tier == Tier::Quick && d == 3 && (a + b + c) % 3 != 0 {
                            continue;
                        }
                        clock_jobs.push((r, [a, b, c], d));
                    }
                }
            }
        }
    }
    let clock_n = AtomicU64::new(0);
    par_map_fine(&clock_jobs, |&(r, seq, d)| {
        let base = Pos::from_fen(clock_roots[r]).unwrap();
        let mut sess = Session::new(false);
        let mut prefix: Vec<String> = Vec::new();
        for (i, &ci) in seq.iter().enumerate() {
            let mut q = base.clone();
            q.half = clock_sets[ci].0;
            q.full = clock_sets[ci].1;
            let out = search_depth(&mut sess, &q, &[], d, "");
            prefix.push(position_line(&q, &[]));
            if i == 2 {
                clock_n.fetch_add(1, Ordering::Relaxed);
                c08_judge_at(&ctx, &q, d, &out, "third search of the same placement given by FEN with other clocks / move numbers", false, &prefix);
            }
            prefix.push(format!("go depth {}", d));
        }
        sess.quit();
    });
    fams.push(json!({"family": "the same placement three times by FEN with different half-move clocks and move numbers, depth 1..3, last search judged", "sessions": clock_n.load(Ordering::Relaxed), "secs": t0.elapsed().as_secs_f64()}));
    // (3) Bellman consistency between the engine's own searches
    let t0 = Instant::now();
    let bell: Vec<Pos> = positions.iter().step_by(if tier == Tier::Quick { 60 } else { 10 }).cloned().collect();
    let bell_n = AtomicU64::new(0);
    par_map_fine(&bell, |p| {
        for d in [2usize, 3] {
            let mut sess = Session::new(false);
            let parent = search_depth(&mut sess, p, &[], d, "");
            sess.quit();
            let parent_score = match parent.score {
                Some(Score::Centipawn { score }) => score,
                _ => continue, // mate scores are distances, compared in the DTM part
            };
            let mut best = i32::MIN;
            let mut all_cp = true;
            for m in p.legal() {
                let c = p.make(&m);
                if !c.has_legal_move() {
                    all_cp = false;
                    break;
                }
                let mut s2 = Session::new(false);
                let o = search_depth(&mut s2, &c, &[], d - 1, "");
                s2.quit();
                match o.score {
                    Some(Score::Centipawn { score }) => best = best.max(-score),
                    _ => {
                        all_cp = false;
                        break;
                    }
                }
            }
            if all_cp {
                bell_n.fetch_add(1, Ordering::Relaxed);
                if best != parent_score {
                    rep.report(format!("bellman_inconsistent:depth{}", d), json!({"kind": "bellman", "fen": p.to_fen(), "depth": d, "parent": parent_score, "max_over_children": best}));
                }
            }
        }
    });
    fams.push(json!({"family": "Bellman consistency V_d(P) = max -V_{d-1}(P.m) between engine searches", "positions": bell.len(), "equations_checked": bell_n.load(Ordering::Relaxed), "secs": t0.elapsed().as_secs_f64()}));
    // (3b) window independence: the value of a search must not depend on what the sibling lines set
    // the alpha-beta window to — V_d(P) must equal the maximum over single-move searchmoves searches.
    // Needs no reference, so it runs on a much larger family (middlegame-stage material, STAGE9).
    let t0 = Instant::now();
    let stage = Stage9;
    // number of positions (flips included); about 45% of the indices decode to a legal position
    let want_positions: u64 = std::env::var("IVK_C08_WINDOW_POSITIONS").ok().and_then(|s| s.parse().ok()).unwrap_or(if tier == Tier::Quick { 8_000 } else { 400_000 });
    let stride = (stage.len() * 9 / (want_positions * 10)).max(1) | 1;
    let idxs: Vec<u64> = (0..(stage.len() / stride)).collect();
    let win_n = AtomicU64::new(0);
    let win_searches = AtomicU64::new(0);
    par_map_chunk(&idxs, 16, |&i| {
        let p = match stage.decode(i * stride) {
            Some(p) => p,
            None => return,
        };
        let legal = p.legal();
        if legal.is_empty() {
            return;
        }
        for p in [p.clone(), p.flip()] {
            win_n.fetch_add(1, Ordering::Relaxed);
            let mut sess = Session::new(false);
            let d = 2usize;
            let whole = search_depth(&mut sess, &p, &[], d, "");
            let mut best: Option<i32> = None;
            let mut ok = whole.problem.is_none();
            let whole_cp = match whole.score {
                Some(Score::Centipawn { score }) => Some(score),
                _ => None,
            };
            if ok && whole_cp.is_some() {
                for m in p.legal() {
                    let o = search_depth(&mut sess, &p, &[], d, &format!(" searchmoves {}", m.uci()));
                    win_searches.fetch_add(1, Ordering::Relaxed);
                    match o.score {
                        Some(Score::Centipawn { score }) => best = Some(best.map_or(score, |b: i32| b.max(score))),
                        _ => {
                            ok = false; // mate scores: distances, judged elsewhere
                            break;
                        }
                    }
                }
                if ok && best != whole_cp {
                    rep.report(format!("value_depends_on_the_search_window:depth{}", d), json!({"kind": "window", "fen": p.to_fen(), "depth": d, "whole_root": whole_cp, "max_over_single_move_searches": best, "bestmove": whole.best}));
                }
            }
            sess.quit();
        }
    });
    fams.push(json!({"family": "window independence on STAGE9 (sub-lattice) and flips, depth 2: V(P) == max over searchmoves-m searches", "positions": win_n.load(Ordering::Relaxed), "single_move_searches": win_searches.load(Ordering::Relaxed), "stride": stride, "secs": t0.elapsed().as_secs_f64()}));
    // (3c) the horizon valuation itself: `search_quiescence` on a full window (through the hook, the
    // same Search type the engine runs) against the reference's exhaustive capture/promotion
    // resolution with stand-pat — on whole families, not only where a root search happens to steer
    let t0 = Instant::now();
    let qs_n = AtomicU64::new(0);
    let qs_resolved = AtomicU64::new(0);
    let qs_windows = AtomicU64::new(0);
    let qs_big = AtomicU64::new(0);
    let qs_judge = |p: &Pos| {
        if !p.has_legal_move() {
            return; // the horizon test of the search hands move-less positions to the terminal valuation
        }
        qs_n.fetch_add(1, Ordering::Relaxed);
        let (got, want) = match quiescence_pair(p) {
            Ok(x) => x,
            Err(e) => {
                rep.report(format!("horizon_valuation_panics:{}", short(&e)), json!({"kind": "quiescence", "fen": p.to_fen(), "detail": {"panic": e}}));
                return;
            }
        };
        if want != eval_hook(p, true) {
            qs_resolved.fetch_add(1, Ordering::Relaxed);
        }
        rep.sample(|| json!({"fen": p.to_fen(), "horizon_value_engine": got, "horizon_value_reference": want, "stand_pat": eval_hook(p, true)}));
        if got != want {
            let promo = p.legal().iter().any(|m| m.promo != 0);
            rep.report(format!("horizon_value_differs:{}", if promo { "mover_can_promote" } else { "captures_only" }), json!({"kind": "quiescence", "fen": p.to_fen(), "detail": {"engine": got, "reference": want, "stand_pat": eval_hook(p, true)}}));
            return;
        }
        // the same valuation on NARROW windows, as the inner nodes of a search ask for it (a full
        // window never prunes): the alpha-beta contract — inside the window the exact value, outside it
        // a bound on the right side — on the window just around the value and on one just around
        // the stand-pat value. Where captures decide (value != stand pat) every position, else a tenth.
        let sp = eval_hook(p, true);
        if want - sp > 1100 && !p.legal().iter().any(|m| m.promo != 0) {
            qs_big.fetch_add(1, Ordering::Relaxed);
        }
        // (thorough runs have 10^8 positions here: a quarter of those where captures decide)
        let turn = qs_n.load(Ordering::Relaxed);
        if (want != sp && (tier == Tier::Quick || turn % 4 == 0 || want - sp > 1000)) || turn % 10 == 0 {
            for (alpha, beta) in [(want - 1, want + 1), (sp - 1, sp + 1), (want - 1, i32::MAX / 2)] {
                qs_windows.fetch_add(1, Ordering::Relaxed);
                match quiescence_window(p, alpha, beta) {
                    Ok(r) => {
                        let ok = if want <= alpha { r <= alpha } else if want >= beta { r >= beta } else { r == want };
                        if !ok {
                            let promo = p.legal().iter().any(|m| m.promo != 0);
                            rep.report(format!("horizon_value_on_a_narrow_window_breaks_the_alpha_beta_contract:{}", if promo { "mover_can_promote" } else { "captures_only" }), json!({"kind": "quiescence_window", "fen": p.to_fen(), "detail": {"alpha": alpha, "beta": beta, "engine_on_this_window": r, "exact_value": want, "stand_pat": sp}}));
                            break;
                        }
                    }
                    Err(e) => {
                        rep.report(format!("horizon_valuation_panics:{}", short(&e)), json!({"kind": "quiescence_window", "fen": p.to_fen(), "detail": {"alpha": alpha, "beta": beta, "panic": e}}));
                        break;
                    }
                }
            }
        }
    };
    {
        let mut list: Vec<(Box<dyn Family>, u64)> = Vec::new();
        for sig in MAT3_SIGS {
            list.push((Box::new(Material::new(sig)), if tier == Tier::Quick { 7 } else { 1 }));
        }
        for sig in MAT4_SIGS {
            list.push((Box::new(Material::new(sig)), if tier == Tier::Quick { 211 } else { 11 }));
        }
        list.push((Box::new(PromoFam::quick()), if tier == Tier::Quick { 13 } else { 1 }));
        list.push((Box::new(EpFam::quick()), if tier == Tier::Quick { 31 } else { 3 }));
        list.push((Box::new(Pawn7), if tier == Tier::Quick { 8_009 } else { 61 }));
        list.push((Box::new(Stage9), (Stage9.len() / if tier == Tier::Quick { 60_000 } else { 3_000_000 }) | 1));
        list.push((Box::new(StageFlip), (StageFlip.len() / if tier == Tier::Quick { 1_500_000 } else { 150_000_000 }) | 1));
        for (f, stride) in list.iter() {
            let t1 = Instant::now();
            let sf = Strided(f.as_ref(), *stride);
            let n = for_family(&sf, &qs_judge);
            let n2 = for_family(&Flipped(&sf), &qs_judge);
            fams.push(json!({"family": format!("horizon valuation on {}", sf.name()), "legal_members": n, "flipped_members": n2, "secs": t1.elapsed().as_secs_f64()}));
        }
        let t1 = Instant::now();
        let (s, _, _) = reach(&roots(), if tier == Tier::Quick { 1 } else { 3 }, &|p, _| qs_judge(p));
        fams.push(json!({"family": "horizon valuation on REACH", "states": s, "secs": t1.elapsed().as_secs_f64()}));
    }
    fams.push(json!({"family": "horizon valuation total", "positions": qs_n.load(Ordering::Relaxed), "positions_where_a_capture_or_promotion_beats_stand_pat": qs_resolved.load(Ordering::Relaxed), "narrow_window_valuations": qs_windows.load(Ordering::Relaxed), "positions_where_captures_alone_gain_more_than_a_queen_and_two_pawns": qs_big.load(Ordering::Relaxed), "secs": t0.elapsed().as_secs_f64()}));
    if qs_resolved.load(Ordering::Relaxed) == 0 {
        rep.machinery("vacuous: horizon valuation never differed from stand-pat");
    }
    // (3d) mates and stalemates exactly at the horizon (shared with C11)
    let hz8 = horizon_terminals(&rep, tier, &[], &mut fams, 3);
    ctx.searches.fetch_add(hz8, Ordering::Relaxed);
    // (4) forced mates from retrograde tables
    let t0 = Instant::now();
    let max_n: i8 = if tier == Tier::Quick { 2 } else { 3 };
    for sig in ["KQk", "KRk", "Kkq", "Kkr"] {
        let fam = Material::new(sig);
        let all: Vec<Pos> = {
            let c = Mutex::new(Vec::new());
            for_family(&fam, &|p| c.lock().unwrap().push(p.clone()));
            c.into_inner().unwrap()
        };
        let table: HashMap<Key, i8> = mate_tables(&all, max_n);
        let mut wins: Vec<(Pos, i8)> = all.iter().filter_map(|p| table.get(&p.key()).filter(|&&n| n > 0).map(|&n| (p.clone(), n))).collect();
        wins.sort_by_key(|(p, _)| p.key());
        let step = if tier == Tier::Quick { 97 } else { 7 };
        let chosen: Vec<(Pos, i8)> = wins.iter().step_by(step).cloned().collect();
        let by_n: Vec<usize> = (1..=max_n).map(|n| wins.iter().filter(|(_, k)| *k == n).count()).collect();
        par_map_fine(&chosen, |(p, n)| {
            let depth = (2 * *n - 1) as usize;
            let mut sess = Session::new(false);
            let out = search_depth(&mut sess, p, &[], depth, "");
            sess.quit();
            ctx.mates_checked.fetch_add(1, Ordering::Relaxed);
            let case = |extra: Value| json!({"kind": "mate", "fen": p.to_fen(), "mate_in": n, "depth": depth, "detail": extra});
            if out.score != Some(Score::Mate { mate_in: *n as i32 }) {
                rep.report(format!("forced_mate_not_reported:mate{}", n), case(json!({"actual": score_json(&out.score), "best": out.best, "pv": out.pv})));
                return;
            }
            // the move played must keep the forced mate: opponent is then mated now (n == 1) or lost in n-1
            match out.best.as_ref().and_then(|b| p.find_legal_uci(b)) {
                None => rep.report("mate_bestmove_illegal".to_string(), case(json!({"best": out.best}))),
                Some(m) => {
                    let after = p.make(&m);
                    let want = if *n == 1 { MATED_NOW } else { -(*n - 1) };
                    if table.get(&after.key()) != Some(&want) {
                        rep.report(format!("bestmove_does_not_keep_forced_mate:mate{}", n), case(json!({"best": out.best, "table_entry_after": table.get(&after.key())})));
                    }
                }
            }
            judge_positive_mate(&rep, &ctx.positive_mate_reports, p, &out, &case);
        });
        fams.push(json!({"family": format!("forced mates from retrograde tables, {}", sig), "positions_in_family": all.len(), "wins_by_n": by_n, "searched": chosen.len()}));
    }
    fams.push(json!({"family": "forced mates total", "secs": t0.elapsed().as_secs_f64()}));

    let mut cov = Coverage::new();
    cov.states = positions.len() as u64;
    cov.transitions = ctx.searches.load(Ordering::Relaxed) + ctx.mates_checked.load(Ordering::Relaxed);
    cov.traces_validated = cov.transitions;
    cov.set("families", json!(fams));
    cov.set("engine_searches_judged", json!(ctx.searches.load(Ordering::Relaxed)));
    cov.set("reference_nodes", json!(ctx.ref_nodes.load(Ordering::Relaxed)));
    cov.set("forced_mate_searches", json!(ctx.mates_checked.load(Ordering::Relaxed)));
    cov.set("positive_mate_reports_with_pv_checked", json!(ctx.positive_mate_reports.load(Ordering::Relaxed)));
    cov.samples = vec![json!({"fen": positions[0].to_fen(), "go": "depth 1..3", "oracle": "reference minimax with the engine's static evaluation at the leaves"})];
    cov.assumptions = vec!["leaf values come from the engine's own static evaluation through the hook (the property is about search, not about the evaluation)".into()];
    if ctx.positive_mate_reports.load(Ordering::Relaxed) == 0 || ctx.mates_checked.load(Ordering::Relaxed) == 0 {
        rep.machinery("vacuous: no mate searches");
    }
    finish(&rep, tier, cov, started)
}

// =======================================================================================
// C11

/// Terminal positions AT THE HORIZON of a search: every kind of mate and stalemate (bare kings,
/// blocked pawns, pinned pieces with many pseudo-legal moves) is reached by `go depth 1
/// searchmoves m` from a predecessor obtained by taking back a move; the score must be the
/// terminal one (draw for stalemate, mate 1 for mate) — the evaluator's own terminal branch is
/// only half of the decision, the search has to recognise the position as move-less first.
/// Returns the number of searches.
fn horizon_terminals(rep: &Reporter, tier: Tier, terms: &[Pos], fams: &mut Vec<Value>, share: u64) -> u64 {
    let t0 = Instant::now();
    let mut horizon_terms: Vec<Pos> = terms.iter().filter(|p| p.piece_count() <= 8).cloned().collect();
    for sig in ["KRkb", "KRkn", "KQkr", "KQkq", "KQkb", "KQkn", "KBkb", "KRkr", "KPkp", "KQkp", "KRRkb", "KRBkb", "KQkbb", "KQkrb", "KRNkr"] {
        let fam = Material::new(sig);
        let want = (if tier == Tier::Quick { 300 } else { 20_000 }) / share as usize;
        let five = sig.len() >= 5;
        let stride = if five { if tier == Tier::Quick { 1_009 } else { 53 } } else if tier == Tier::Quick { 7 } else { 1 };
        let found = Mutex::new(Vec::new());
        for_family(&Strided(&fam, stride), &|p| {
            if !p.has_legal_move() {
                let mut f = found.lock().unwrap();
                if f.len() < want {
                    f.push(p.clone());
                }
            }
        });
        let mut f = found.into_inner().unwrap();
        f.sort_by_key(|p| p.key());
        horizon_terms.extend(f);
    }
    let hz_n = AtomicU64::new(0);
    let hz_pinned = AtomicU64::new(0);
    let hz_stale = AtomicU64::new(0);
    par_map_chunk(&horizon_terms, 8, |t| {
        let preds = retract_into(t);
        if preds.is_empty() {
            return;
        }
        let mate = t.in_check(t.stm);
        let many = t.pseudo_legal().len() > 8;
        let mut sess = Session::new(false);
        // at most three predecessors per terminal position, spread over the list
        let step = (preds.len() / 3).max(1);
        for (pi, (p, m)) in preds.iter().step_by(step).take(3).enumerate() {
            // the same predecessor late in a game: the terminal position is reached with the half-move
            // clock at 100 and at 141 (mate and stalemate take precedence over the fifty-move rule)
            let mut variants = vec![p.clone(), p.flip()];
            if pi == 0 && !m.is_capture() {
                for half in [99u64, 140] {
                    let mut late = p.clone();
                    late.half = half;
                    late.full = 90;
                    variants.push(late.flip());
                    variants.push(late);
                }
            }
            for q in variants {
                let mu = if q.stm == p.stm { m.uci() } else { format!("{}{}", sq_name(m.from ^ 56), sq_name(m.to ^ 56)) };
                let out = search_depth(&mut sess, &q, &[], 1, &format!(" searchmoves {}", mu));
                hz_n.fetch_add(1, Ordering::Relaxed);
                if many {
                    hz_pinned.fetch_add(1, Ordering::Relaxed);
                }
                if !mate {
                    hz_stale.fetch_add(1, Ordering::Relaxed);
                }
                let case = |extra: Value| json!({"kind": "horizon_terminal", "fen": q.to_fen(), "searchmove": mu, "depth": 1, "detail": extra});
                if let Some(pr) = &out.problem {
                    rep.report(format!("no_answer:{}", short(pr)), case(json!({"problem": pr})));
                    return;
                }
                let expected = if mate { Score::Mate { mate_in: 1 } } else { verif::score_from_value(-verif::draw_score(), &board_of(&q)) };
                if out.score != Some(expected) {
                    let sig = if mate && q.half >= 99 { "mate_at_the_horizon_not_scored_as_mate_1:half_move_clock_100_or_more" } else if mate { "mate_at_the_horizon_not_scored_as_mate_1" } else if many { "stalemate_at_the_horizon_not_scored_as_draw:more_than_8_pseudo_legal_moves" } else { "stalemate_at_the_horizon_not_scored_as_draw" };
                    rep.report(sig.to_string(), case(json!({"expected": score_text(&expected), "actual": score_json(&out.score), "terminal_position": t.to_fen()})));
                }
            }
        }
        sess.quit();
    });
    fams.push(json!({"family": "terminal positions at the horizon: go depth 1 searchmoves m from predecessors obtained by taking back a move (and flips)", "terminal_positions": horizon_terms.len(), "searches": hz_n.load(Ordering::Relaxed), "searches_into_stalemates": hz_stale.load(Ordering::Relaxed), "searches_into_terminals_with_more_than_8_pseudo_legal_moves": hz_pinned.load(Ordering::Relaxed), "secs": t0.elapsed().as_secs_f64()}));
    if hz_pinned.load(Ordering::Relaxed) == 0 || hz_stale.load(Ordering::Relaxed) == 0 {
        rep.machinery("vacuous: horizon family reached no stalemate or no terminal with pinned pieces");
    }
    hz_n.load(Ordering::Relaxed)
}

/// predecessors of a move-less position `t`: the side that is NOT to move in `t` takes back a move
/// of one of its pieces (king, queen, rook, bishop, knight; also putting back a captured queen,
/// rook or knight of the other side). Returns (predecessor, the move that leads to `t`'s placement).
fn retract_into(t: &Pos) -> Vec<(Pos, Mv)> {
    let mover = 1 - t.stm;
    let mut out = Vec::new();
    for s in 0..64u8 {
        let piece = t.board[s as usize];
        if piece == EMPTY || pc_color(piece) != mover || pc_kind(piece) == PAWN {
            continue;
        }
        let kind = pc_kind(piece);
        let dirs: &[(i8, i8)] = match kind {
            KNIGHT => &[(1, 2), (2, 1), (-1, 2), (-2, 1), (1, -2), (2, -1), (-1, -2), (-2, -1)],
            BISHOP => &[(1, 1), (1, -1), (-1, 1), (-1, -1)],
            ROOK => &[(1, 0), (-1, 0), (0, 1), (0, -1)],
            _ => &[(1, 0), (-1, 0), (0, 1), (0, -1), (1, 1), (1, -1), (-1, 1), (-1, -1)],
        };
        let slides = matches!(kind, BISHOP | ROOK | QUEEN);
        for &(df, dr) in dirs {
            let (mut f, mut r) = (file_of(s) + df, row_of(s) + dr);
            while let Some(from) = sq_at(f, r) {
                if t.board[from as usize] != EMPTY {
                    break;
                }
                for put_back in [EMPTY, pc(t.stm, QUEEN), pc(t.stm, ROOK), pc(t.stm, KNIGHT)] {
                    let mut p = t.clone();
                    p.board[from as usize] = piece;
                    p.board[s as usize] = put_back;
                    p.stm = mover;
                    p.ep = NO_EP;
                    if !p.is_legal_position() {
                        continue;
                    }
                    if let Some(m) = p.legal().into_iter().find(|m| m.from == from && m.to == s && m.promo == 0) {
                        let q = p.make(&m);
                        if q.board == t.board && q.stm == t.stm && !q.has_legal_move() {
                            out.push((p, m));
                        }
                    }
                }
                if !slides {
                    break;
                }
                f += df;
                r += dr;
            }
        }
    }
    out
}

pub fn run_c11(tier: Tier) -> i32 {
    let started = Instant::now();
    let rep = Reporter::new("C11");
    let mut fams = Vec::new();
    let static_n = AtomicU64::new(0);
    let terminals: Mutex<Vec<Pos>> = Mutex::new(Vec::new());
    let visit_static = |p: &Pos| {
        static_n.fetch_add(1, Ordering::Relaxed);
        let f = p.flip();
        let r = guarded(|| (verif::static_eval(&board_of(p)), verif::static_eval(&board_of(&f))));
        match r {
            Ok((a, b)) => {
                rep.sample(|| json!({"fen": p.to_fen(), "flipped": f.to_fen(), "static_eval": a, "static_eval_flipped": b}));
                if a != -b {
                    let stage = if p.board.iter().any(|&x| pc_kind(x) == QUEEN && x != EMPTY) { "queens_on_board" } else { "no_queens" };
                    rep.report(format!("static_eval_not_antisymmetric:{}", stage), json!({"kind": "static", "fen": p.to_fen(), "flipped": f.to_fen(), "eval": a, "eval_flipped": b}));
                }
            }
            Err(m) => rep.report(format!("panic:{}", short(&m)), json!({"kind": "static", "fen": p.to_fen(), "panic": m})),
        }
        if !p.has_legal_move() {
            let mut t = terminals.lock().unwrap();
            if t.len() < 4000 || p.piece_count() > 3 {
                if t.len() < 20000 {
                    t.push(p.clone());
                }
            }
        }
    };
    let roots = roots();
    let t0 = Instant::now();
    let depth = if tier == Tier::Quick { 2 } else { 3 };
    let (s, _, _) = reach(&roots, depth, &|p, _| visit_static(p));
    fams.push(json!({"family": format!("REACH({}) static evaluation of P and flip(P)", depth), "states": s, "secs": t0.elapsed().as_secs_f64()}));
    let mut list: Vec<Box<dyn Family>> = Vec::new();
    for sig in MAT3_SIGS {
        list.push(Box::new(Material::new(sig)));
    }
    let mat4: &[&str] = if tier == Tier::Quick { &[] } else { &["KQkq", "KQkr", "KBNk", "KQQk", "KRkb", "KPkp"] };
    for sig in mat4 {
        list.push(Box::new(Material::new(sig)));
    }
    for f in list.iter() {
        let t0 = Instant::now();
        let n = for_family(f.as_ref(), &visit_static);
        fams.push(json!({"family": f.name(), "legal_members": n, "secs": t0.elapsed().as_secs_f64()}));
    }
    {
        // clause coverage of the game-stage rule: it depends on (white has a queen, black has a queen,
        // white has <= 1 minor, black has <= 1 minor) — one material signature per combination of
        // {no queen, queen} x {0, 2 minors} for each side (16 signatures, 2 to 8 men), sub-lattices
        let mut sigs: Vec<String> = Vec::new();
        for wq in ["", "Q"] {
            for wm in ["", "BN"] {
                for bq in ["", "q"] {
                    for bm in ["", "bn"] {
                        sigs.push(format!("K{}{}k{}{}", wq, wm, bq, bm));
                    }
                }
            }
        }
        for extra in ["KQkr", "KQQk", "KQBkqn", "KRBNkq", "KQNkqbn"] {
            sigs.push(extra.to_string());
        }
        for sig in sigs.iter().filter(|s| s.len() > 3) {
            let t0 = Instant::now();
            let fam = Material::new(sig);
            let target: u64 = if tier == Tier::Quick { 40_000 } else { 1_500_000 };
            let stride = (fam.len() / target).max(1) | 1;
            let n = for_family(&Strided(&fam, stride), &visit_static);
            fams.push(json!({"family": format!("MAT:{} every {}th index (game-stage clause coverage)", sig, stride), "legal_members": n, "secs": t0.elapsed().as_secs_f64()}));
        }
    }
    {
        // the material LATTICE: every vector of piece counts (queens, rooks, bishops, knights 0..3 each,
        // pawns 0..2 per side: 768^2 = 589 824 vectors — "all material configurations
        // and game stages"), each in several deterministic placements with the kings on unrelated
        // squares. The evaluation may depend on counts in ways no single-signature family shows.
        let t0 = Instant::now();
        let placements: u64 = if tier == Tier::Quick { 3 } else { 24 };
        let lattice_n = AtomicU64::new(0);
        let per_side: u64 = 4 * 4 * 4 * 4 * 3;
        par_for(per_side * per_side * placements, 256, |idx| {
            let mut i = idx;
            let variant = i % placements;
            i /= placements;
            let mut counts = [[0u64; 5]; 2]; // q r b n p
            for side in 0..2 {
                for (j, n) in [4u64, 4, 4, 4, 3].iter().enumerate() {
                    counts[side][j] = i % n;
                    i /= n;
                }
            }
            // squares in a fixed pseudo-random order that depends on the variant and the vector
            let a = (variant * 7 + idx / placements * 13) % 64;
            let step = [37u64, 27, 45, 19, 51, 29][(variant % 6) as usize]; // all co-prime to 64
            let mut order: Vec<u8> = (0..64u64).map(|k| ((a + k * step) % 64) as u8).collect();
            let mut p = Pos::empty();
            let mut next = |p: &mut Pos, piece: u8, pawn: bool| -> bool {
                let pos = order.iter().position(|&sq| p.board[sq as usize] == EMPTY && (!pawn || (row_of(sq) != 0 && row_of(sq) != 7)));
                match pos {
                    Some(k) => {
                        let sq = order.remove(k);
                        p.board[sq as usize] = piece;
                        true
                    }
                    None => false,
                }
            };
            let kinds = [QUEEN, ROOK, BISHOP, KNIGHT, PAWN];
            if !next(&mut p, pc(WHITE, KING), false) || !next(&mut p, pc(BLACK, KING), false) {
                return;
            }
            for side in 0..2u8 {
                for j in 0..5 {
                    for _ in 0..counts[side as usize][j] {
                        if !next(&mut p, pc(side, kinds[j]), kinds[j] == PAWN) {
                            return;
                        }
                    }
                }
            }
            for stm in [WHITE, BLACK] {
                p.stm = stm;
                if p.is_legal_position() {
                    lattice_n.fetch_add(1, Ordering::Relaxed);
                    visit_static(&p);
                }
            }
        });
        fams.push(json!({"family": "material lattice: every count vector (Q R B N 0..3, P 0..2 per side) x deterministic placements x side to move", "count_vectors": per_side * per_side, "placements_per_vector": placements, "legal_members": lattice_n.load(Ordering::Relaxed), "secs": t0.elapsed().as_secs_f64()}));
    }
    let castle = CastleFam { blockers: 6 };
    let ep = EpFam::quick();
    let promo = PromoFam::quick();
    for f in [&castle as &dyn Family, &ep, &promo] {
        let t0 = Instant::now();
        let stride = if tier == Tier::Quick { 5 } else { 1 };
        let n = for_family(&Strided(f, stride), &visit_static);
        fams.push(json!({"family": format!("{} every {}th index", f.name(), stride), "legal_members": n, "secs": t0.elapsed().as_secs_f64()}));
    }
    // terminal scores
    let t0 = Instant::now();
    let terms = terminals.into_inner().unwrap();
    let term_n = AtomicU64::new(0);
    par_map_fine(&terms, |p| {
        let mate = p.in_check(p.stm);
        let mut prev: Option<i32> = None;
        for full in [1u64, 2, 50, 1000, 2400] {
            let mut q = p.clone();
            q.full = full;
            term_n.fetch_add(1, Ordering::Relaxed);
            let v = eval_hook(&q, false); // mover-centric
            let case = |extra: Value| json!({"kind": "terminal", "fen": q.to_fen(), "detail": extra});
            if mate {
                if v >= 0 || !verif::is_checkmate_value(v) {
                    rep.report("mated_side_not_given_a_losing_mate_score".to_string(), case(json!({"value_for_mover": v})));
                }
                // nearer mates must be better for the winner = worse for the mated side
                if let Some(pv) = prev {
                    if !(v > pv) {
                        rep.report("mate_score_not_monotone_in_move_number".to_string(), case(json!({"value_for_mover": v, "value_at_smaller_move_number": pv})));
                    }
                }
                prev = Some(v);
                // and symmetric under colour flip
                let fv = eval_hook(&q.flip(), false);
                if fv != v {
                    rep.report("terminal_score_not_colour_symmetric".to_string(), case(json!({"value_for_mover": v, "flipped_value_for_mover": fv})));
                }
            } else if v != verif::draw_score() {
                rep.report("stalemate_not_scored_as_draw".to_string(), case(json!({"value_for_mover": v})));
            }
        }
    });
    let n_mates = terms.iter().filter(|p| p.in_check(p.stm)).count();
    fams.push(json!({"family": "terminal positions x full-move {1,2,50,1000,2400}", "positions": terms.len(), "mates": n_mates, "stalemates": terms.len() - n_mates, "evaluations": term_n.load(Ordering::Relaxed), "secs": t0.elapsed().as_secs_f64()}));
    let hz_searches = horizon_terminals(&rep, tier, &terms, &mut fams, 1);
    // search symmetry
    let t0 = Instant::now();
    let collect = Mutex::new(Vec::new());
    reach(&roots, 1, &|p, _| collect.lock().unwrap().push(p.clone()));
    let mut sp = collect.into_inner().unwrap();
    sp.sort_by_key(|p| p.key());
    let step = if tier == Tier::Quick { 4 } else { 1 };
    let mut sp: Vec<Pos> = sp.into_iter().step_by(step).filter(|p| p.has_legal_move()).collect();
    // mates in 1..2 so that mate distances are compared too
    for f in ["6k1/5ppp/8/8/8/8/8/R3K3 w Q - 0 1", "7k/8/5KQ1/8/8/8/8/8 w - - 0 1", "k7/8/1K6/8/8/8/8/7R w - - 0 1", "r1bqkbnr/pppp1ppp/2n5/4p3/2B1P3/5Q2/PPPP1PPP/RNB1K1NR w KQkq - 0 1"] {
        sp.push(Pos::from_fen(f).unwrap());
    }
    // promotion races (a pawn one step from promotion next to heavy pieces): the only place where the
    // search treats the two colours by separately written conditions on ranks
    let n_general = sp.len();
    sp.extend(pawn7_slice(if tier == Tier::Quick { 3_000 } else { 60_000 }));
    sp.extend(promo_slice(if tier == Tier::Quick { 2_500 } else { 60_000 }));
    let n_races = sp.len() - n_general;
    let searches = AtomicU64::new(0);
    par_map_fine(&sp, |p| {
        let f = p.flip();
        let mut s1 = Session::new(false);
        let mut s2 = Session::new(false);
        for d in 1..=3usize {
            if d == 3 && p.piece_count() > 20 && tier == Tier::Quick {
                continue;
            }
            let a = search_depth(&mut s1, p, &[], d, "");
            let b = search_depth(&mut s2, &f, &[], d, "");
            searches.fetch_add(2, Ordering::Relaxed);
            if a.problem.is_some() || b.problem.is_some() {
                rep.report("no_answer".to_string(), json!({"kind": "search_pair", "fen": p.to_fen(), "depth": d, "problems": [a.problem, b.problem]}));
                break;
            }
            if a.score != b.score {
                let kind = if matches!(a.score, Some(Score::Mate { .. })) || matches!(b.score, Some(Score::Mate { .. })) { "mate" } else { "cp" };
                rep.report(format!("search_score_not_colour_symmetric:{}:depth{}", kind, d), json!({"kind": "search_pair", "fen": p.to_fen(), "flipped": f.to_fen(), "depth": d, "score": score_json(&a.score), "flipped_score": score_json(&b.score)}));
            }
        }
        s1.quit();
        s2.quit();
    });
    fams.push(json!({"family": "go depth 1..3 on P and flip(P)", "positions": sp.len(), "of_which_promotion_races_from_PAWN7_and_PROMO": n_races, "searches": searches.load(Ordering::Relaxed), "secs": t0.elapsed().as_secs_f64()}));

    let mut cov = Coverage::new();
    cov.states = static_n.load(Ordering::Relaxed) + terms.len() as u64;
    cov.transitions = static_n.load(Ordering::Relaxed) * 2 + term_n.load(Ordering::Relaxed) + searches.load(Ordering::Relaxed) + hz_searches;
    cov.traces_validated = cov.transitions;
    cov.set("families", json!(fams));
    cov.samples = vec![json!({"fen": roots[1].to_fen(), "flipped": roots[1].flip().to_fen(), "oracle": "static_eval(P) == -static_eval(flip P); Score(P,d) == Score(flip P,d)"})];
    if n_mates == 0 || terms.len() == n_mates {
        rep.machinery("vacuous: no mates or no stalemates among the terminal positions");
    }
    finish(&rep, tier, cov, started)
}

// =======================================================================================
// C10

/// evaluation for the fifty-move oracle: independent threshold (100 plies), the engine's
/// material/positional value taken on a copy of the position with the clock reset
fn eval_fifty(p: &Pos, has_legal: bool) -> i32 {
    if has_legal {
        if p.half >= 100 {
            return verif::draw_score();
        }
        let mut q = p.clone();
        q.half = 0;
        eval_hook(&q, true)
    } else {
        eval_hook(p, false)
    }
}

/// shuffle alphabet of named moves
fn shuffle_moves(p: &Pos) -> Vec<Mv> {
    // (castling and the shuffles that become possible after it come last: they only get their turn in
    // the base that has castling rights and nothing else to do)
    let names: &[&str] = if p.stm == WHITE { &["g1f3", "f3g1", "b1c3", "c3b1", "a1b1", "b1a1", "h2h3", "e2e4", "f3e5", "d1h5", "e1g1", "e1c1", "f1f2", "f2f1", "d1d2", "d2d1", "g1h1", "h1g1", "e1e2", "e2e1"] } else { &["g8f6", "f6g8", "b8c6", "c6b8", "a8b8", "b8a8", "h7h6", "e7e5", "f6e4", "d8h4", "e8g8", "e8c8", "f8f7", "f7f8", "d8d7", "d7d8", "g8h8", "h8g8", "e8e7", "e7e8"] };
    let legal = p.legal();
    names.iter().filter_map(|n| legal.iter().find(|m| m.uci() == *n).copied()).collect()
}

/// One whole game on one engine instance: `position <base> moves ...` grows by the engine's own
/// best move, `go depth d` at every ply, every answer judged against the reference with the
/// repetition rule over the real game history. `script`: Some(moves) replays a recorded game and
/// judges only its last search. Returns (plies played, searches where the rule changed the value).
fn c10_game(rep: &Reporter, base: &Pos, d: usize, max_plies: usize, script: Option<&[String]>) -> (u64, u64) {
    let draw = verif::draw_score();
    let contempt = verif::contempt();
    let mut sess = Session::new(false);
    let mut line: Vec<Pos> = vec![base.clone()];
    let mut moves: Vec<String> = Vec::new();
    let (mut plies, mut mattered) = (0u64, 0u64);
    let n = script.map_or(max_plies, |s| s.len() + 1);
    for ply in 0..n {
        let root = line.last().unwrap().clone();
        // the game is over, or about to be by a rule judged elsewhere (fifty moves: family (b))
        if !root.has_legal_move() || RefSearch::occurrences(&line) >= 3 || root.half as usize + d + 8 >= verif::max_half_moves() as usize {
            break;
        }
        let out = search_depth(&mut sess, base, &moves, d, "");
        plies += 1;
        let judged = script.map_or(true, |s| ply == s.len());
        let case = |extra: Value| json!({"kind": "game", "base": base.to_fen(), "history": moves, "depth": d, "detail": extra});
        if let Some(pr) = &out.problem {
            rep.report(format!("no_answer:{}", short(pr)), case(json!({"problem": pr})));
            break;
        }
        let best = match out.best.as_ref().and_then(|b| root.find_legal_uci(b)) {
            Some(m) => m,
            None => {
                rep.report("game_bestmove_illegal_or_null".to_string(), case(json!({"bestmove": out.best})));
                break;
            }
        };
        if judged {
            let eval = |q: &Pos, l: bool| eval_hook(q, l);
            let mut wants = Vec::new();
            for c in [contempt, -contempt] {
                let mut rs = RefSearch::new(&eval);
                rs.history = line[..line.len() - 1].to_vec();
                rs.repetition = Some(RepRule { draw, contempt: c });
                wants.push(rs.root_value_ab_rep(&root, d));
            }
            let mut rs0 = RefSearch::new(&eval);
            let without_rule = rs0.root_ab(&root, d).0;
            if without_rule != wants[0] {
                mattered += 1;
            }
            let got = match out.score {
                Some(Score::Centipawn { score }) => Some(score),
                _ => None,
            };
            rep.sample(|| json!({"base": base.to_fen(), "game_so_far": moves, "go": format!("depth {}", d), "engine_score": score_json(&out.score), "reference_with_repetition_rule": wants, "reference_without": without_rule}));
            let mate_expected = wants.iter().any(|w| verif::is_checkmate_value(*w));
            if script.is_some() {
                println!("ply {}: engine {:?} best {:?}; reference with rule {:?}, without {}", ply, out.score, out.best, wants, without_rule);
            }
            if !mate_expected && got != Some(wants[0]) && got != Some(wants[1]) {
                let sig = if got == Some(without_rule) { "game:repetition_in_the_game_history_ignored" } else { "game:value_differs_from_reference_with_repetition_rule" };
                rep.report(format!("{}:depth{}", sig, d), case(json!({"expected": wants, "reference_without_repetition_rule": without_rule, "actual": score_json(&out.score)})));
                if script.is_none() {
                    break;
                }
            }
        }
        let next = match script {
            Some(s) if ply < s.len() => match root.find_legal_uci(&s[ply]) {
                Some(m) => m,
                None => break,
            },
            Some(_) => break,
            None => best,
        };
        moves.push(next.uci());
        line.push(root.make(&next));
    }
    sess.quit();
    (plies, mattered)
}

/// one query of the forcing-cycle family: `go depth d` after `moves` from `base` against the
/// alpha-beta reference with the repetition rule. Returns (the rule changes the reference value,
/// the engine differs but not attributably to the rule).
fn c10_cycle_query(rep: &Reporter, base: &Pos, moves: &[String], depth: usize, print: bool) -> (bool, bool) {
    let draw = verif::draw_score();
    let contempt = verif::contempt();
    let mut line: Vec<Pos> = vec![base.clone()];
    for u in moves {
        let q = line.last().unwrap().clone();
        match q.find_legal_uci(u) {
            Some(m) => line.push(q.make(&m)),
            None => return (false, false),
        }
    }
    let root = line.last().unwrap().clone();
    let mut sess = Session::new(false);
    let out = search_depth(&mut sess, base, moves, depth, "");
    sess.quit();
    let case = |extra: Value| json!({"kind": "cycle", "base": base.to_fen(), "history": moves, "depth": depth, "detail": extra});
    if let Some(pr) = &out.problem {
        rep.report(format!("no_answer:{}", short(pr)), case(json!({"problem": pr})));
        return (false, false);
    }
    let eval = |q: &Pos, l: bool| eval_hook(q, l);
    let mut wants = Vec::new();
    for c in [contempt, -contempt] {
        let mut rs = RefSearch::new(&eval);
        rs.history = line[..line.len() - 1].to_vec();
        rs.repetition = Some(RepRule { draw, contempt: c });
        wants.push(rs.root_value_ab_rep(&root, depth));
    }
    let mut rs0 = RefSearch::new(&eval);
    let without_rule = rs0.root_ab(&root, depth).0;
    let matters = without_rule != wants[0];
    let got = match out.score {
        Some(Score::Centipawn { score }) => Some(score),
        _ => None,
    };
    if print {
        println!("engine {:?} (pv {:?}), reference with repetition rule {:?}, without {}", out.score, out.pv, wants, without_rule);
    }
    let mate_expected = wants.iter().any(|w| verif::is_checkmate_value(*w));
    let mut unattributed = false;
    if !mate_expected && got != Some(wants[0]) && got != Some(wants[1]) {
        // At depth 4/5 the root value also depends on how exact the search is beyond the depths C08
        // speaks about. What C10 is about is the DIFFERENCE THE HISTORY MAKES: the same root
        // searched without the history (`position fen <root>`, no moves) on a fresh engine, and the
        // reference without history; if the engine deviates from the tree minimax by the same
        // amount with and without the history, the repetition rule has nothing to do with it (no
        // verdict, counted).
        let mut s2 = Session::new(false);
        let bare = search_depth(&mut s2, &root, &[], depth, "");
        s2.quit();
        let bare_got = match bare.score {
            Some(Score::Centipawn { score }) => Some(score),
            _ => None,
        };
        if print {
            println!("the same root without history: engine {:?}", bare.score);
        }
        let attributable = match (got, bare_got) {
            (Some(g), Some(bg)) => (g - bg) != (wants[0] - without_rule) && (g - bg) != (wants[1] - without_rule),
            _ => true,
        };
        if attributable {
            let sig = if got == Some(without_rule) { "line_ending_in_third_occurrence_valued_by_material" } else { "value_differs_from_reference_with_repetition_rule" };
            rep.report(format!("{}:depth{}", sig, depth), case(json!({"expected": wants, "reference_without_repetition_rule": without_rule, "actual": score_json(&out.score), "engine_on_the_same_root_without_history": score_json(&bare.score)})));
        } else {
            unattributed = true;
        }
    }
    (matters, unattributed)
}

/// rook/king walkers: each side moves one piece around a closed cycle of squares; the whole position
/// repeats every lcm(len_w, len_b) full moves. Returns the game as UCI moves (all reversible).
fn periodic_game(base: &Pos, white_cycle: &[&str], black_cycle: &[&str], plies: usize) -> Option<Vec<String>> {
    let mut p = base.clone();
    let mut out = Vec::new();
    let (mut wi, mut bi) = (0usize, 0usize);
    for _ in 0..plies {
        let (cyc, idx) = if p.stm == WHITE { (white_cycle, &mut wi) } else { (black_cycle, &mut bi) };
        let u = format!("{}{}", cyc[*idx % cyc.len()], cyc[(*idx + 1) % cyc.len()]);
        *idx += 1;
        let m = p.find_legal_uci(&u)?;
        if m.is_capture() || m.piece == PAWN {
            return None;
        }
        p = p.make(&m);
        out.push(u);
    }
    Some(out)
}

/// judge `go depth d` after `history` (from `base`) against the reference that applies BOTH draw
/// rules: repetition over the whole reversible history and the fifty-move rule at the leaves
fn c10_long_history_query(rep: &Reporter, base: &Pos, history: &[String], d: usize, searchmove: Option<&str>, print: bool) -> (bool, bool) {
    let draw = verif::draw_score();
    let contempt = verif::contempt();
    let mut line = vec![base.clone()];
    for u in history {
        let q = line.last().unwrap().clone();
        match q.find_legal_uci(u) {
            Some(m) => line.push(q.make(&m)),
            None => return (false, false),
        }
    }
    let root = line.last().unwrap().clone();
    if !root.has_legal_move() || RefSearch::occurrences(&line) >= 3 {
        return (false, false); // C07's business
    }
    let mut sess = Session::new(false);
    let extra = searchmove.map(|m| format!(" searchmoves {}", m)).unwrap_or_default();
    let out = search_depth(&mut sess, base, history, d, &extra);
    sess.quit();
    let case = |x: Value| json!({"kind": "long_history", "base": base.to_fen(), "history": history, "depth": d, "searchmove": searchmove, "detail": x});
    if let Some(pr) = &out.problem {
        rep.report(format!("no_answer:{}", short(pr)), case(json!({"problem": pr})));
        return (true, false);
    }
    let eval = |q: &Pos, l: bool| eval_fifty(q, l);
    let sm: Option<Vec<String>> = searchmove.map(|m| vec![m.to_string()]);
    let mut wants = Vec::new();
    for c in [contempt, -contempt] {
        let mut rs = RefSearch::new(&eval);
        rs.history = line[..line.len() - 1].to_vec();
        rs.repetition = Some(RepRule { draw, contempt: c });
        wants.push(rs.root(&root, d, sm.as_deref()).0);
    }
    let mut rs0 = RefSearch::new(&eval);
    let without_rule = rs0.root(&root, d, sm.as_deref()).0;
    let matters = without_rule != wants[0];
    let got = match out.score {
        Some(Score::Centipawn { score }) => Some(score),
        _ => None,
    };
    if print {
        println!("after {} plies (half-move clock {}): engine {:?}; reference with repetition rule {:?}, without {}", history.len(), root.half, out.score, wants, without_rule);
    }
    let mate_expected = wants.iter().any(|w| verif::is_checkmate_value(*w));
    if !mate_expected && got != Some(wants[0]) && got != Some(wants[1]) {
        let far = root.half >= 100;
        let sig = if got == Some(without_rule) { if far { "repetition_over_more_than_100_plies_ignored" } else { "repetition_in_a_long_history_ignored" } } else { "long_history:value_differs_from_reference" };
        rep.report(format!("{}:depth{}", sig, d), case(json!({"expected": wants, "reference_without_repetition_rule": without_rule, "actual": score_json(&out.score), "halfmove_clock_at_root": root.half})));
    }
    (true, matters)
}

pub fn run_c10(tier: Tier) -> i32 {
    let started = Instant::now();
    let rep = Reporter::new("C10");
    let mut fams = Vec::new();
    let contempt = verif::contempt();
    let draw = verif::draw_score();
    // ---- (a) unit level: the repetition counter on all realistic hash sequences
    let t0 = Instant::now();
    let unit_n = AtomicU64::new(0);
    let max_len = if tier == Tier::Quick { 11 } else { 13 };
    let firsts: Vec<u64> = (0..9).collect();
    // the symbols stand for hashes; three encodings: small numbers, numbers that differ only in the
    // upper 32 bits, numbers that differ only in the lower 32 bits (a history that keeps part of a hash
    // would confuse different positions)
    let encodings: Vec<u64> = vec![0, 1, 2];
    let enc_jobs: Vec<(u64, u64)> = encodings.iter().flat_map(|&e| firsts.iter().map(move |&f| (e, f))).collect();
    par_map_fine(&enc_jobs, |&(enc, first)| {
        // sequences over per-parity alphabets {1,2,3} (even plies) and {11,12,13} (odd plies)
        let mut seq: Vec<u64> = vec![1 + first / 3, 11 + first % 3];
        thread_local! {
            static ENC: std::cell::Cell<u64> = std::cell::Cell::new(0);
        }
        ENC.with(|c| c.set(enc));
        fn code(s: u64) -> u64 {
            match ENC.with(|c| c.get()) {
                0 => s,
                1 => 0x1234_5678 | (s << 32) | (s << 50),
                _ => 0xABCD_EF01_0000_0000 | s,
            }
        }
        fn rec(rep: &Reporter, seq: &mut Vec<u64>, max_len: usize, n: &AtomicU64) {
            let len = seq.len();
            if len >= 5 {
                // judge the last element as "current position" for every base index and window
                for base in [0u16, 1, 37, 4000] {
                    let mut h = verif::History::new();
                    for (i, s) in seq.iter().enumerate() {
                        h.set(base + i as u16, code(*s));
                    }
                    let start = base + (len - 1) as u16;
                    for window in 0..=(len as u16 + 1) {
                        n.fetch_add(1, Ordering::Relaxed);
                        let got = h.count_repetitions(start, window) >= 3;
                        // reference: occurrences of the current symbol within the last `window` plies
                        let lo = (len - 1).saturating_sub(window as usize);
                        let occ = (lo..len).filter(|&i| seq[i] == seq[len - 1] && (len - 1 - i) % 2 == 0).count();
                        if got != (occ >= 3) {
                            rep.report(format!("repetition_counter:{}", if got { "reports_threefold_too_early" } else { "misses_threefold" }), json!({"kind": "history_unit", "sequence": seq.iter().map(|x| code(*x)).collect::<Vec<u64>>(), "symbols": seq.clone(), "base_index": base, "halfmove_window": window, "occurrences": occ, "reported_threefold": got}));
                        }
                    }
                }
            }
            if len == max_len {
                return;
            }
            let alpha: [u64; 3] = if len % 2 == 0 { [1, 2, 3] } else { [11, 12, 13] };
            for a in alpha {
                // equal symbols at least 4 plies apart (what real games can produce)
                if len >= 2 && seq[len - 2] == a {
                    continue;
                }
                seq.push(a);
                rec(rep, seq, max_len, n);
                seq.pop();
            }
        }
        rec(&rep, &mut seq, max_len, &unit_n);
    });
    fams.push(json!({"family": format!("all hash sequences of length <= {} over per-parity 3-symbol alphabets x all windows x 4 base indices", max_len), "counter_queries": unit_n.load(Ordering::Relaxed), "secs": t0.elapsed().as_secs_f64()}));

    // ---- (a) engine level: histories over a shuffle alphabet
    let t0 = Instant::now();
    let bases = ["rnbqkbnr/pppppppp/8/8/8/8/PPPPPPPP/RNBQKBNR w KQkq - 0 1", "rnbqkbnr/pppppppp/8/8/8/8/PPPPPPPP/RNBQKBNR w KQkq - 37 61", "rnbqkbnr/pppppppp/8/8/8/8/PPPPPPPP/RNBQKBNR b KQkq - 0 1", "r3k2r/8/8/8/8/8/8/R3K2R w - - 12 30", "4k2r/8/8/8/8/8/8/4K2R w Kk - 3 30", "4k3/8/8/8/8/8/8/4K2R w K - 3 30", "4k2r/8/8/8/8/8/8/4K3 b k - 3 30"];
    let hist_len = if tier == Tier::Quick { 7 } else { 10 };
    // enumerate histories breadth-first with the reference; keep only those where a repetition is
    // possible soon (every history is judged; the engine query is per continuation)
    let mut jobs: Vec<(Pos, Vec<Mv>)> = Vec::new();
    for b in bases {
        let base = Pos::from_fen(b).unwrap();
        let mut layer: Vec<Vec<Mv>> = vec![vec![]];
        // (the bases with castling rights need one more ply: castle, then the position after it twice more)
        let len_here = if tier == Tier::Quick && base.castle != 0 && base.piece_count() < 10 { hist_len + 1 } else { hist_len };
        for _ in 0..len_here {
            let mut next = Vec::new();
            for h in &layer {
                let mut p = base.clone();
                for m in h {
                    p = p.make(m);
                }
                let cands = shuffle_moves(&p);
                // out-and-back knight moves, a rook shuffle, one irreversible move
                for m in cands.iter().take(3) {
                    let mut nh = h.clone();
                    nh.push(*m);
                    next.push(nh);
                }
            }
            // cap the layer deterministically (keeps every history whose tail can still repeat)
            // no cap is expected to bind (<= 3 moves per ply); if it ever does, say so
            let cap = 200_000;
            if next.len() > cap {
                rep.machinery(format!("history layer capped at {} (had {})", cap, next.len()));
                next.truncate(cap);
            }
            for h in &next {
                jobs.push((base.clone(), h.clone()));
            }
            layer = next;
        }
    }
    let queries = AtomicU64::new(0);
    let threefold_queries = AtomicU64::new(0);
    let skipped_root_threefold = AtomicU64::new(0);
    par_map_fine(&jobs, |(base, hist)| {
        // positions along the game
        let mut line: Vec<Pos> = vec![base.clone()];
        for m in hist {
            let q = line.last().unwrap().make(m);
            line.push(q);
        }
        let root = line.last().unwrap().clone();
        if RefSearch::occurrences(&line) >= 3 {
            skipped_root_threefold.fetch_add(1, Ordering::Relaxed);
            return; // C07's business
        }
        let moves: Vec<String> = hist.iter().map(|m| m.uci()).collect();
        let mut sess = Session::new(false);
        for m in shuffle_moves(&root).iter().take(5) {
            for depth in [1usize, 2] {
                if depth == 2 && hist.len() > 6 && tier == Tier::Quick {
                    continue;
                }
                queries.fetch_add(1, Ordering::Relaxed);
                let out = search_depth(&mut sess, base, &moves, depth, &format!(" searchmoves {}", m.uci()));
                let case = |extra: Value| json!({"kind": "history", "base": base.to_fen(), "history": moves, "searchmove": m.uci(), "depth": depth, "detail": extra});
                rep.sample(|| json!({"base": base.to_fen(), "history": moves, "go": format!("depth {} searchmoves {}", depth, m.uci()), "engine_score": score_json(&out.score)}));
                if let Some(pr) = &out.problem {
                    rep.report(format!("no_answer:{}", short(pr)), case(json!({"problem": pr})));
                    return;
                }
                // reference with the repetition rule at every node of the line
                let eval = |q: &Pos, l: bool| eval_hook(q, l);
                let mut rs = RefSearch::new(&eval);
                rs.history = line[..line.len() - 1].to_vec();
                rs.repetition = Some(RepRule { draw, contempt });
                let (_, vals) = rs.root(&root, depth, Some(&[m.uci()]));
                let want = vals[0].1;
                // either sign of the contempt offset is accepted for lines that end in a repetition:
                // recompute with the opposite sign as well
                let mut rs2 = RefSearch::new(&eval);
                rs2.history = line[..line.len() - 1].to_vec();
                rs2.repetition = Some(RepRule { draw, contempt: -contempt });
                let want2 = rs2.root(&root, depth, Some(&[m.uci()])).1[0].1;
                let mut after = line.clone();
                after.push(root.make(m));
                let third = RefSearch::occurrences(&after) >= 3;
                if third {
                    threefold_queries.fetch_add(1, Ordering::Relaxed);
                }
                let got = match out.score {
                    Some(Score::Centipawn { score }) => Some(score),
                    _ => None,
                };
                let mut ok = got == Some(want) || got == Some(want2);
                if verif::is_checkmate_value(want) || verif::is_checkmate_value(want2) {
                    // the line ends in mate: distances are compared as the engine reports them
                    ok = out.score == Some(verif::score_from_value(want, &board_of(&root))) || out.score == Some(verif::score_from_value(want2, &board_of(&root)));
                }
                if !ok {
                    let sig = if third && depth == 1 {
                        "third_occurrence_not_valued_as_draw"
                    } else if !third && depth == 1 && (got == Some(draw + contempt) || got == Some(draw - contempt)) {
                        "valued_as_repetition_draw_without_third_occurrence"
                    } else {
                        "value_differs_from_reference_with_repetition_rule"
                    };
                    rep.report(format!("{}:depth{}", sig, depth), case(json!({"expected": want, "expected_with_opposite_contempt_sign": want2, "actual": score_json(&out.score), "third_occurrence_after_move": third})));
                }
            }
        }
        sess.quit();
    });
    fams.push(json!({"family": "game histories over a shuffle alphabet x continuations, go depth 1/2 searchmoves m", "histories": jobs.len(), "engine_queries": queries.load(Ordering::Relaxed), "queries_whose_move_completes_a_threefold": threefold_queries.load(Ordering::Relaxed), "skipped_root_already_threefold": skipped_root_threefold.load(Ordering::Relaxed), "secs": t0.elapsed().as_secs_f64()}));

    // ---- (a1) lopsided material and WHOLE-ROOT searches: one side is far better off than a draw, both
    // shuffle (out and back), and the search of the whole root (all moves on one window, so the later
    // moves are searched with alpha already raised) must value the lines that complete a third
    // occurrence as draws all the same. Histories: at every ply the reverse of the mover's previous
    // move and its first two quiet piece moves; go depth 2 against the reference root value.
    let t0 = Instant::now();
    {
        let lop_bases = ["7k/1R6/7P/8/8/2K5/8/8 w - - 0 1", "6k1/8/8/8/8/8/1Q6/K7 w - - 0 40", "7k/8/8/8/8/8/R7/K7 b - - 4 50", "4k3/8/8/8/8/2b5/1R6/4K2R w K - 3 30"];
        let lop_len = if tier == Tier::Quick { 6 } else { 8 };
        let mut lop_jobs: Vec<(Pos, Vec<Mv>)> = Vec::new();
        for f in lop_bases {
            let b0 = Pos::from_fen(f).unwrap();
            for base in [b0.flip(), b0] {
                let mut layer: Vec<Vec<Mv>> = vec![vec![]];
                for _ in 0..lop_len {
                    let mut next = Vec::new();
                    for h in &layer {
                        let mut p = base.clone();
                        for m in h {
                            p = p.make(m);
                        }
                        let legal = p.legal();
                        let mut cands: Vec<Mv> = Vec::new();
                        if h.len() >= 2 {
                            let prev = h[h.len() - 2];
                            if let Some(back) = legal.iter().find(|m| m.from == prev.to && m.to == prev.from && !m.is_capture()) {
                                cands.push(*back);
                            }
                        }
                        let mut quiet: Vec<Mv> = legal.iter().filter(|m| !m.is_capture() && m.piece != PAWN && !m.is_castle && p.make(m).has_legal_move()).copied().collect();
                        quiet.sort_by_key(|m| m.uci());
                        for m in quiet {
                            if cands.len() < 3 && !cands.iter().any(|c| c.uci() == m.uci()) {
                                cands.push(m);
                            }
                        }
                        for m in cands {
                            let mut nh = h.clone();
                            nh.push(m);
                            next.push(nh);
                        }
                    }
                    for h in &next {
                        if h.len() >= 4 {
                            lop_jobs.push((base.clone(), h.clone()));
                        }
                    }
                    layer = next;
                }
            }
        }
        let lop_q = AtomicU64::new(0);
        let lop_changed = AtomicU64::new(0);
        par_map_fine(&lop_jobs, |(base, hist)| {
            let mut line: Vec<Pos> = vec![base.clone()];
            for m in hist {
                let q = line.last().unwrap().make(m);
                line.push(q);
            }
            let root = line.last().unwrap().clone();
            if RefSearch::occurrences(&line) >= 3 || !root.has_legal_move() {
                return;
            }
            let moves: Vec<String> = hist.iter().map(|m| m.uci()).collect();
            let eval = |q: &Pos, l: bool| eval_hook(q, l);
            let refval = |c: i32, with_history: bool| -> i32 {
                let mut rs = RefSearch::new(&eval);
                if with_history {
                    rs.history = line[..line.len() - 1].to_vec();
                }
                rs.repetition = Some(RepRule { draw, contempt: c });
                rs.root(&root, 2, None).0
            };
            let (want, want2, without) = (refval(contempt, true), refval(-contempt, true), refval(contempt, false));
            if want != without {
                lop_changed.fetch_add(1, Ordering::Relaxed);
            }
            lop_q.fetch_add(1, Ordering::Relaxed);
            let mut sess = Session::new(false);
            let out = search_depth(&mut sess, base, &moves, 2, "");
            sess.quit();
            let case = |extra: Value| json!({"kind": "history_whole_root", "base": base.to_fen(), "history": moves, "depth": 2, "detail": extra});
            if let Some(pr) = &out.problem {
                rep.report(format!("no_answer:{}", short(pr)), case(json!({"problem": pr})));
                return;
            }
            let got = match out.score {
                Some(Score::Centipawn { score }) => Some(score),
                _ => None,
            };
            let mut ok = got == Some(want) || got == Some(want2);
            if verif::is_checkmate_value(want) || verif::is_checkmate_value(want2) {
                ok = out.score == Some(verif::score_from_value(want, &board_of(&root))) || out.score == Some(verif::score_from_value(want2, &board_of(&root)));
            }
            if !ok {
                rep.report("whole_root_value_differs_from_reference_with_repetition_rule:depth2".to_string(), case(json!({"expected": want, "expected_with_opposite_contempt_sign": want2, "reference_without_the_history": without, "actual": score_json(&out.score), "bestmove": out.best})));
            }
        });
        fams.push(json!({"family": "lopsided material, shuffle histories of 4..N plies, go depth 2 on the whole root against the reference root value with the repetition rule", "bases_incl_flips": lop_bases.len() * 2, "histories": lop_jobs.len(), "engine_queries": lop_q.load(Ordering::Relaxed), "queries_where_the_history_changes_the_reference_value": lop_changed.load(Ordering::Relaxed), "secs": t0.elapsed().as_secs_f64()}));
        if lop_changed.load(Ordering::Relaxed) == 0 {
            rep.machinery("vacuous: no lopsided history changed the root value");
        }
    }

    // ---- (a2) the history belongs to the position command that supplied it: after a game given as
    // `position <base> moves ...` the same engine gets `position fen <a position of that game>` with
    // no move list (what a GUI sends when the user switches to analysis, or after ucinewgame). The
    // clocks of the FEN are the true ones, so the reversible window reaches back over plies the new
    // command said nothing about; nothing from the earlier command may be counted there.
    let t0 = Instant::now();
    let leak_jobs: Vec<&(Pos, Vec<Mv>)> = {
        let full: Vec<&(Pos, Vec<Mv>)> = jobs.iter().filter(|(_, h)| h.len() >= 6).collect();
        let want = if tier == Tier::Quick { 1_500 } else { 20_000 };
        let step = (full.len() / want).max(1);
        full.into_iter().step_by(step).collect()
    };
    let leak_n = AtomicU64::new(0);
    let leak_would_repeat = AtomicU64::new(0);
    par_map_fine(&leak_jobs, |(base, hist)| {
        let mut line: Vec<Pos> = vec![base.clone()];
        for m in hist {
            let q = line.last().unwrap().make(m);
            line.push(q);
        }
        let moves: Vec<String> = hist.iter().map(|m| m.uci()).collect();
        for (cut, newgame, searched_first) in [(hist.len() - 1, false, false), (hist.len() - 2, true, true), (hist.len(), true, false)] {
            let root = line[cut].clone();
            if !root.has_legal_move() {
                continue;
            }
            let mut sess = Session::new(false);
            sess.line(&position_line(base, &moves));
            if searched_first {
                let _ = run_go(&mut sess, "go depth 1", Plan::virtual_rate(1000), &no_actions);
            }
            if newgame {
                sess.line("ucinewgame");
            }
            for m in shuffle_moves(&root).iter().take(5) {
                leak_n.fetch_add(1, Ordering::Relaxed);
                let out = search_depth(&mut sess, &root, &[], 1, &format!(" searchmoves {}", m.uci()));
                let case = |extra: Value| json!({"kind": "history_leak", "base": base.to_fen(), "history": moves, "cut": cut, "ucinewgame_between": newgame, "searched_first": searched_first, "searchmove": m.uci(), "depth": 1, "detail": extra});
                if let Some(pr) = &out.problem {
                    rep.report(format!("no_answer:{}", short(pr)), case(json!({"problem": pr})));
                    return;
                }
                // would the earlier game have made this a third occurrence?
                let mut with_old = line[..=cut].to_vec();
                with_old.push(root.make(m));
                if RefSearch::occurrences(&with_old) >= 3 {
                    leak_would_repeat.fetch_add(1, Ordering::Relaxed);
                }
                let eval = |q: &Pos, l: bool| eval_hook(q, l);
                let mut rs = RefSearch::new(&eval);
                rs.repetition = Some(RepRule { draw, contempt });
                let want = rs.root(&root, 1, Some(&[m.uci()])).1[0].1;
                let got = match out.score {
                    Some(Score::Centipawn { score }) => Some(score),
                    _ => None,
                };
                if !verif::is_checkmate_value(want) && got != Some(want) {
                    let sig = if got == Some(draw + contempt) || got == Some(draw - contempt) { "history_of_an_earlier_position_command_counted" } else { "value_differs_after_an_earlier_position_command" };
                    rep.report(format!("{}:depth1", sig), case(json!({"expected": want, "actual": score_json(&out.score), "root": root.to_fen()})));
                }
            }
            sess.quit();
        }
        // a REJECTED position command after the game (a different game whose move list ends in an
        // illegal move) is not "the position command": the engine keeps the position it had, and
        // with it the history that was supplied for it
        {
            let root = line.last().unwrap().clone();
            if root.has_legal_move() && RefSearch::occurrences(&line) < 3 {
                let mut sess = Session::new(false);
                sess.line(&position_line(base, &moves));
                // the rejected command: the colour-flipped start, the first half of the flipped game, then a move from an empty square
                let other = Pos::from_fen("rnbqkbnr/pppppppp/8/8/8/8/PPPPPPPP/RNBQKBNR w KQkq - 0 1").unwrap();
                let mut prefix: Vec<String> = Vec::new();
                let mut q = other.clone();
                for u in ["b1c3", "b8c6", "c3b1", "c6b8", "g1f3"].iter().take(1 + moves.len() % 5) {
                    if let Some(m) = q.find_legal_uci(u) {
                        q = q.make(&m);
                        prefix.push(u.to_string());
                    }
                }
                prefix.push("e4e5".to_string()); // no piece there: the command must be rejected as a whole
                sess.line(&position_line(&other, &prefix));
                for m in shuffle_moves(&root).iter().take(5) {
                    leak_n.fetch_add(1, Ordering::Relaxed);
                    // no new position command: the engine still holds base + moves
                    let out = run_go(&mut sess, &format!("go depth 1 searchmoves {}", m.uci()), Plan::virtual_rate(1000), &no_actions);
                    let out = {
                        let mut o = out;
                        if let Some(i) = o.obs.infos.iter().rev().find(|i| i.score.is_some()) {
                            o.score = i.score;
                        }
                        o
                    };
                    let case = |extra: Value| json!({"kind": "history_leak_rejected", "base": base.to_fen(), "history": moves, "rejected_command": position_line(&other, &prefix), "searchmove": m.uci(), "depth": 1, "detail": extra});
                    if let Some(pr) = &out.problem {
                        rep.report(format!("no_answer:{}", short(pr)), case(json!({"problem": pr})));
                        break;
                    }
                    let mut after = line.clone();
                    after.push(root.make(m));
                    if RefSearch::occurrences(&after) >= 3 {
                        leak_would_repeat.fetch_add(1, Ordering::Relaxed);
                    }
                    let eval = |q: &Pos, l: bool| eval_hook(q, l);
                    let mut wants = Vec::new();
                    for c in [contempt, -contempt] {
                        let mut rs = RefSearch::new(&eval);
                        rs.history = line[..line.len() - 1].to_vec();
                        rs.repetition = Some(RepRule { draw, contempt: c });
                        wants.push(rs.root(&root, 1, Some(&[m.uci()])).1[0].1);
                    }
                    let got = match out.score {
                        Some(Score::Centipawn { score }) => Some(score),
                        _ => None,
                    };
                    if !wants.iter().any(|w| verif::is_checkmate_value(*w)) && got != Some(wants[0]) && got != Some(wants[1]) {
                        rep.report("history_changed_by_a_rejected_position_command:depth1".to_string(), case(json!({"expected": wants, "actual": score_json(&out.score), "bestmove": out.best})));
                    }
                }
                sess.quit();
            }
        }
    });
    fams.push(json!({"family": "position fen <a position of the game just given> without moves, after that game on the same engine (with/without ucinewgame, with/without a search in between): go depth 1 searchmoves m against the reference without history", "histories": leak_jobs.len(), "engine_queries": leak_n.load(Ordering::Relaxed), "queries_that_the_earlier_history_would_have_made_a_third_occurrence": leak_would_repeat.load(Ordering::Relaxed), "secs": t0.elapsed().as_secs_f64()}));
    if leak_would_repeat.load(Ordering::Relaxed) == 0 {
        rep.machinery("vacuous: no leak query would have been a repetition under the earlier history");
    }

    // ---- (a3) deeper lines: positions in which the weaker side has a forcing (checking) cycle, with a
    // game history in which the cycle was already played once; go depth 4 / 5, whole root. The line
    // that repeats is then the principal one, so the root score shows how its end node was valued.
    let t0 = Instant::now();
    let mut cyc_jobs: Vec<(Pos, Vec<Mv>)> = Vec::new();
    {
        // candidates: white K g1 + Q anywhere + three pawns against black K behind a pawn shield with a
        // queen and two rooks: White is lost on material unless the checks repeat
        let shields = ["5ppp", "5pp1", "5p1p", "6pp", "5p2", "6p1", "7p", "8"];
        let kings = [6u8, 7, 5];
        for sh in shields {
            for &bk in &kings {
                for q in 0..64u8 {
                    let mut p = Pos::empty();
                    let mut f = 0usize;
                    for ch in sh.chars() {
                        if let Some(d) = ch.to_digit(10) {
                            f += d as usize;
                        } else {
                            p.board[8 + f] = pc(BLACK, PAWN);
                            f += 1;
                        }
                    }
                    p.board[bk as usize] = pc(BLACK, KING);
                    p.board[62] = pc(WHITE, KING); // g1
                    p.board[53] = pc(WHITE, PAWN); // f2
                    p.board[54] = pc(WHITE, PAWN); // g2
                    p.board[55] = pc(WHITE, PAWN); // h2
                    p.board[48] = pc(BLACK, QUEEN); // a2
                    p.board[0] = pc(BLACK, ROOK); // a8
                    if bk != 5 {
                        p.board[if bk == 6 { 5 } else { 4 }] = pc(BLACK, ROOK);
                    } else {
                        p.board[3] = pc(BLACK, ROOK);
                    }
                    if p.board[q as usize] != EMPTY {
                        continue;
                    }
                    p.board[q as usize] = pc(WHITE, QUEEN);
                    p.stm = WHITE;
                    p.full = 30;
                    if !p.is_legal_position() || p.in_check(WHITE) {
                        continue;
                    }
                    // a 4-ply cycle of checks back to the root
                    let mut found: Option<Vec<Mv>> = None;
                    'search: for m1 in p.legal() {
                        let p1 = p.make(&m1);
                        if !p1.in_check(BLACK) || m1.is_capture() {
                            continue;
                        }
                        for m2 in p1.legal() {
                            let p2 = p1.make(&m2);
                            if m2.is_capture() || m2.piece == PAWN {
                                continue;
                            }
                            for m3 in p2.legal() {
                                let p3 = p2.make(&m3);
                                if !p3.in_check(BLACK) || m3.is_capture() {
                                    continue;
                                }
                                for m4 in p3.legal() {
                                    if p3.make(&m4).key() == p.key() {
                                        found = Some(vec![m1, m2, m3, m4]);
                                        break 'search;
                                    }
                                }
                            }
                        }
                    }
                    if let Some(cycle) = found {
                        cyc_jobs.push((p, cycle));
                    }
                }
            }
        }
    }
    if tier == Tier::Quick {
        cyc_jobs = cyc_jobs.into_iter().step_by(2).collect();
    }
    let cyc_n = AtomicU64::new(0);
    let cyc_matter = AtomicU64::new(0);
    let cyc_unattributed = AtomicU64::new(0);
    par_map_fine(&cyc_jobs, |(base, cycle)| {
        let mut line: Vec<Pos> = vec![base.clone()];
        for m in cycle {
            let q = line.last().unwrap().make(m);
            line.push(q);
        }
        let root = line.last().unwrap().clone(); // == base position, second occurrence
        let moves: Vec<String> = cycle.iter().map(|m| m.uci()).collect();
        let depths: &[usize] = if tier == Tier::Quick { &[4] } else { &[4, 5] };
        for &depth in depths {
            cyc_n.fetch_add(1, Ordering::Relaxed);
            let (matters, unattributed) = c10_cycle_query(&rep, base, &moves, depth, false);
            if matters && std::env::var("IVK_PRINT_CYCLES").is_ok() {
                println!("CYCLE-MATTERS depth {} : {} moves {}", depth, base.to_fen(), moves.join(" "));
            }
            if matters {
                cyc_matter.fetch_add(1, Ordering::Relaxed);
            }
            if unattributed {
                cyc_unattributed.fetch_add(1, Ordering::Relaxed);
            }
        }
    });
    fams.push(json!({"family": "forcing check cycles (KQ+3P v KQRR+shield), cycle already played once, go depth 4/5", "positions": cyc_jobs.len(), "searches": cyc_n.load(Ordering::Relaxed), "searches_where_the_repetition_rule_changes_the_reference_value": cyc_matter.load(Ordering::Relaxed), "differences_not_attributable_to_the_repetition_rule_no_verdict": cyc_unattributed.load(Ordering::Relaxed), "secs": t0.elapsed().as_secs_f64()}));
    if cyc_matter.load(Ordering::Relaxed) == 0 {
        rep.machinery("vacuous: the repetition rule never changes the reference value in the cycle family");
    }

    // ---- (a4) whole games on one engine: the repetition bookkeeping as a real game builds it
    let t0 = Instant::now();
    let game_bases = ["rnbqkbnr/pppppppp/8/8/8/8/PPPPPPPP/RNBQKBNR w KQkq - 0 1", "r3k2r/p1ppqpb1/bn2pnp1/3PN3/1p2P3/2N2Q1p/PPPBBPPP/R3K2R w KQkq - 0 1", "8/8/8/4k3/8/8/3Q4/4K3 w - - 0 1", "4k3/8/8/8/8/8/3r4/4K2R b K - 0 1", "6k1/5ppp/8/8/8/8/q4PPP/3Q2K1 w - - 0 30", "8/2p5/3p4/KP5r/1R3p1k/8/4P1P1/8 w - - 0 1", "r4rk1/1pp1qppp/p1np1n2/2b1p1B1/2B1P1b1/P1NP1N2/1PP1QPPP/R4RK1 w - - 0 10", "8/8/4k3/8/8/3P4/8/4K3 w - - 0 1"];
    let game_jobs: Vec<(Pos, usize)> = game_bases.iter().flat_map(|f| [1usize, 2, 3].into_iter().map(move |d| (Pos::from_fen(f).unwrap(), d))).filter(|(p, d)| tier == Tier::Thorough || *d < 3 || p.piece_count() <= 8).collect();
    let game_plies = AtomicU64::new(0);
    let game_matter = AtomicU64::new(0);
    par_map_fine(&game_jobs, |(base, d)| {
        let (n, m) = c10_game(&rep, base, *d, if tier == Tier::Quick { 120 } else { 400 }, None);
        game_plies.fetch_add(n, Ordering::Relaxed);
        game_matter.fetch_add(m, Ordering::Relaxed);
    });
    fams.push(json!({"family": "whole games played by the engine against itself on one instance, go depth 1/2/3 at every ply, value against the reference with the repetition rule over the real history", "games": game_jobs.len(), "searches_judged": game_plies.load(Ordering::Relaxed), "searches_where_the_repetition_rule_changes_the_reference_value": game_matter.load(Ordering::Relaxed), "secs": t0.elapsed().as_secs_f64()}));

    // ---- (a5) long reversible histories: occurrences of one position 50 .. 75 plies apart, so that the
    // third one falls beyond half-move clock 100 (the fifty-move zone, clocks up to 150 are in scope)
    // and the first one lies more than 100 plies back
    let t0 = Instant::now();
    let long_n = AtomicU64::new(0);
    let long_matter = AtomicU64::new(0);
    let long_matter_far = AtomicU64::new(0);
    {
        // base: rooks and kings, a pawn each so that values are not symmetric; no castling rights
        let base = Pos::from_fen("4k2r/6p1/8/8/8/8/1P6/R3K3 w - - 0 40").unwrap();
        let a_file = ["a1", "a2", "a3", "a4", "a5", "a6", "a7"];
        let h_file = ["h8", "h7", "h6", "h5", "h4", "h3", "h2"];
        // (white cycle length, black cycle length): period in plies = 2 * lcm
        let shapes: &[(usize, usize)] = if tier == Tier::Quick { &[(7, 4), (5, 6), (7, 5), (3, 2)] } else { &[(7, 4), (5, 6), (7, 5), (3, 2), (7, 6), (5, 7), (6, 5), (4, 3), (7, 2)] };
        let mut queries: Vec<(Vec<String>, usize, Option<String>)> = Vec::new();
        for &(cw, cb) in shapes {
            let game = match periodic_game(&base, &a_file[..cw], &h_file[..cb], 150) {
                Some(g) => g,
                None => {
                    rep.machinery(format!("periodic game ({}, {}) could not be generated", cw, cb));
                    continue;
                }
            };
            let lcm = (1..).map(|k| k * cw).find(|v| v % cb == 0).unwrap();
            let period = 2 * lcm;
            // every history length whose continuation can complete an occurrence, +- 2 plies around
            // the multiples of the period, and a sweep of every 7th length
            for n in 0..game.len() {
                let near = (1..=3).any(|k| { let t = (k * period) as i64; (n as i64 - t).abs() <= 2 });
                if near || n % 7 == 0 {
                    let next = game[n].clone();
                    queries.push((game[..n].to_vec(), 1, Some(next.clone())));
                    queries.push((game[..n].to_vec(), 2, None));
                    if near {
                        queries.push((game[..n].to_vec(), 1, None));
                        queries.push((game[..n].to_vec(), 2, Some(next)));
                    }
                }
            }
        }
        par_map_fine(&queries, |(hist, d, sm)| {
            let (ran, matters) = c10_long_history_query(&rep, &base, hist, *d, sm.as_deref(), false);
            if ran {
                long_n.fetch_add(1, Ordering::Relaxed);
            }
            if matters {
                long_matter.fetch_add(1, Ordering::Relaxed);
                if hist.len() >= 100 {
                    long_matter_far.fetch_add(1, Ordering::Relaxed);
                }
            }
        });
    }
    fams.push(json!({"family": "long reversible histories (periodic rook walks, position repeats every 12..70 plies, up to 150 plies), go depth 1/2 with and without searchmoves, reference with repetition AND fifty-move rule", "searches": long_n.load(Ordering::Relaxed), "searches_where_the_repetition_rule_changes_the_reference_value": long_matter.load(Ordering::Relaxed), "of_those_with_100_or_more_plies_of_history": long_matter_far.load(Ordering::Relaxed), "secs": t0.elapsed().as_secs_f64()}));
    if long_matter_far.load(Ordering::Relaxed) == 0 {
        rep.machinery("vacuous: the repetition rule never mattered beyond 100 plies of history");
    }

    // ---- (b) fifty-move rule
    let t0 = Instant::now();
    let fifty_roots = ["8/8/8/4k3/8/8/3Q4/4K3 w - - 0 80", "8/8/8/4k3/8/8/3Q4/4K3 b - - 0 80", "8/8/8/4k3/8/8/3R4/4K3 w - - 0 80", "8/8/4k3/8/8/3P4/8/4K3 w - - 0 80", "8/8/4k3/8/8/3P4/8/4K3 b - - 0 80", "4k3/3q4/8/8/4K3/8/8/8 b - - 0 80", "4k3/3r4/8/8/4K3/8/8/8 w - - 0 80", "r3k3/8/8/8/8/8/4P3/4K2R w K - 0 80"];
    let fifty_jobs: Vec<(Pos, u64)> = fifty_roots.iter().flat_map(|f| (0..=150u64).map(move |h| (Pos::from_fen(f).unwrap(), h))).collect();
    let fifty_n = AtomicU64::new(0);
    par_map_fine(&fifty_jobs, |(base, h)| {
        let mut p = base.clone();
        p.half = *h;
        let mut sess = Session::new(false);
        for depth in [1usize, 2] {
            fifty_n.fetch_add(1, Ordering::Relaxed);
            let out = search_depth(&mut sess, &p, &[], depth, "");
            let case = |extra: Value| json!({"kind": "fifty", "fen": p.to_fen(), "depth": depth, "detail": extra});
            if let Some(pr) = &out.problem {
                rep.report(format!("no_answer:{}", short(pr)), case(json!({"problem": pr})));
                break;
            }
            let eval = |q: &Pos, l: bool| eval_fifty(q, l);
            let mut rs = RefSearch::new(&eval);
            let (value, _) = rs.root(&p, depth, None);
            let expected = verif::score_from_value(value, &board_of(&p));
            if out.score != Some(expected) {
                let leaf_clock = *h + depth as u64;
                let sig = if leaf_clock < 100 && out.score == Some(Score::Centipawn { score: draw }) && expected != (Score::Centipawn { score: draw }) {
                    "fifty_move_draw_before_100_plies"
                } else if leaf_clock >= 100 {
                    "fifty_move_draw_not_applied_at_100_plies"
                } else {
                    "value_differs"
                };
                rep.report(format!("{}:depth{}", sig, depth), case(json!({"halfmove_clock": h, "expected": score_text(&expected), "actual": score_json(&out.score)})));
            }
        }
        sess.quit();
    });
    fams.push(json!({"family": "fifty-move: 8 roots x half-move clock 0..150 x depth 1,2", "searches": fifty_n.load(Ordering::Relaxed), "secs": t0.elapsed().as_secs_f64()}));

    let mut cov = Coverage::new();
    cov.states = jobs.len() as u64 + fifty_jobs.len() as u64;
    cov.transitions = unit_n.load(Ordering::Relaxed) + queries.load(Ordering::Relaxed) + fifty_n.load(Ordering::Relaxed);
    cov.traces_validated = cov.transitions;
    cov.set("families", json!(fams));
    cov.set("contempt", json!(contempt));
    cov.samples = vec![json!({"position": "startpos", "history": ["g1f3", "g8f6", "f3g1", "f6g8", "g1f3", "g8f6", "f3g1"], "go": "depth 1 searchmoves f6g8", "expected": "draw score +/- contempt (third occurrence of the start position)"})];
    cov.assumptions = vec!["either sign of the contempt offset is accepted (the statement fixes only its magnitude)".into(), "roots that are already a threefold repetition belong to C07 and are skipped here".into()];
    if threefold_queries.load(Ordering::Relaxed) == 0 {
        rep.machinery("vacuous: no query completes a threefold repetition");
    }
    finish(&rep, tier, cov, started)
}

// =======================================================================================
// replay for C08 / C10 / C11

pub fn replay(id: &str, case: &Value) -> i32 {
    let started = Instant::now();
    let rep = Reporter::new(id);
    let kind = case["kind"].as_str().unwrap_or("");
    let fen = case["fen"].as_str().or(case["base"].as_str()).unwrap_or("");
    let p = match Pos::from_fen(fen) {
        Ok(p) => p,
        Err(e) => {
            eprintln!("bad replay fen {}: {}", fen, e);
            return 2;
        }
    };
    let depth = case["depth"].as_u64().unwrap_or(1) as usize;
    match (id, kind) {
        ("C08", "window") => {
            let mut sess = Session::new(false);
            let whole = search_depth(&mut sess, &p, &[], depth, "");
            let mut best: Option<(i32, String)> = None;
            for m in p.legal() {
                let o = search_depth(&mut sess, &p, &[], depth, &format!(" searchmoves {}", m.uci()));
                if let Some(Score::Centipawn { score }) = o.score {
                    if best.as_ref().map_or(true, |b| score > b.0) {
                        best = Some((score, m.uci()));
                    }
                }
            }
            sess.quit();
            println!("whole root: {:?} best {:?}; max over single-move searches: {:?}", whole.score, whole.best, best);
            if let (Some(Score::Centipawn { score }), Some((b, _))) = (whole.score, &best) {
                if score != *b {
                    rep.report("value_depends_on_the_search_window".to_string(), json!({"kind": "window", "fen": p.to_fen(), "depth": depth}));
                }
            }
        }
        ("C08", "quiescence_window") => {
            let (alpha, beta) = (case["detail"]["alpha"].as_i64().unwrap_or(0) as i32, case["detail"]["beta"].as_i64().unwrap_or(0) as i32);
            match (quiescence_pair(&p), quiescence_window(&p, alpha, beta)) {
                (Ok((full, want)), Ok(r)) => {
                    println!("horizon valuation of {}: reference {}, engine on the full window {}, engine on the window ({}, {}): {}", p.to_fen(), want, full, alpha, beta, r);
                    let ok = if want <= alpha { r <= alpha } else if want >= beta { r >= beta } else { r == want };
                    if !ok {
                        rep.report("horizon_value_on_a_narrow_window_breaks_the_alpha_beta_contract".to_string(), json!({"kind": "quiescence_window", "fen": p.to_fen(), "detail": {"alpha": alpha, "beta": beta}}));
                    }
                }
                (Err(e), _) | (_, Err(e)) => rep.report("horizon_valuation_panics".to_string(), json!({"kind": "quiescence_window", "fen": p.to_fen(), "detail": {"panic": e}})),
            }
        }
        ("C08", "quiescence") => {
            match quiescence_pair(&p) {
                Ok((got, want)) => {
                    println!("horizon valuation of {}: engine {}, reference {} (stand-pat {})", p.to_fen(), got, want, eval_hook(&p, true));
                    if got != want {
                        rep.report("horizon_value_differs".to_string(), json!({"kind": "quiescence", "fen": p.to_fen()}));
                    }
                }
                Err(e) => rep.report("horizon_valuation_panics".to_string(), json!({"kind": "quiescence", "fen": p.to_fen(), "detail": {"panic": e}})),
            }
        }
        ("C08", "session") => {
            let ctx = C08Ctx { rep: &rep, searches: Default::default(), ref_nodes: Default::default(), mates_checked: Default::default(), positive_mate_reports: Default::default() };
            let prefix: Vec<String> = case["prefix"].as_array().map(|a| a.iter().filter_map(|v| v.as_str().map(|s| s.to_string())).collect()).unwrap_or_default();
            let mut sess = Session::new(false);
            for l in &prefix {
                println!("> {}", l);
                if l.starts_with("go") {
                    let o = run_go(&mut sess, l, Plan::virtual_rate(1000), &no_actions);
                    println!("  score {:?} best {:?} pv {:?}", o.score, o.best, o.pv);
                } else {
                    sess.line(l);
                }
            }
            let out = run_go(&mut sess, &format!("go depth {}", depth), Plan::virtual_rate(1000), &no_actions);
            println!("> go depth {}\n  score {:?} best {:?} pv {:?}", depth, out.score, out.best, out.pv);
            sess.quit();
            c08_judge_at(&ctx, &p, depth, &out, "replay of the recorded session", p.piece_count() <= 12 || depth <= 2, &prefix);
        }
        ("C08", "search") | ("C08", "mate") | ("C08", "bellman") => {
            let ctx = C08Ctx { rep: &rep, searches: Default::default(), ref_nodes: Default::default(), mates_checked: Default::default(), positive_mate_reports: Default::default() };
            let mut sess = Session::new(false);
            for d in 1..=depth {
                let out = search_depth(&mut sess, &p, &[], d, "");
                println!("depth {}: score {:?} best {:?} pv {:?}", d, out.score, out.best, out.pv);
                if d == depth {
                    c08_judge(&ctx, &p, d, &out, "replay: fresh engine, depths 1..d in sequence", p.piece_count() <= 12 || d <= 2);
                }
            }
            sess.quit();
        }
        ("C11", "horizon_terminal") | ("C08", "horizon_terminal") => {
            let mu = case["searchmove"].as_str().unwrap_or("").to_string();
            let mut sess = Session::new(false);
            let out = search_depth(&mut sess, &p, &[], 1, &format!(" searchmoves {}", mu));
            sess.quit();
            let after = p.find_legal_uci(&mu).map(|m| p.make(&m));
            match after {
                Some(t) if !t.has_legal_move() => {
                    let mate = t.in_check(t.stm);
                    let expected = if mate { Score::Mate { mate_in: 1 } } else { verif::score_from_value(-verif::draw_score(), &board_of(&p)) };
                    println!("go depth 1 searchmoves {}: {:?}; the move leads to {} ({}), expected {:?}", mu, out.score, t.to_fen(), if mate { "checkmate" } else { "stalemate" }, expected);
                    if out.score != Some(expected) {
                        rep.report("terminal_at_the_horizon_scored_wrongly".to_string(), json!({"kind": "horizon_terminal", "fen": p.to_fen(), "searchmove": mu}));
                    }
                }
                _ => return 2,
            }
        }
        ("C11", "static") | ("C11", "terminal") | ("C11", "search_pair") => {
            let f = p.flip();
            let (a, b) = (verif::static_eval(&board_of(&p)), verif::static_eval(&board_of(&f)));
            println!("static_eval(P) = {}, static_eval(flip P) = {}", a, b);
            if p.has_legal_move() && a != -b {
                rep.report("static_eval_not_antisymmetric".to_string(), json!({"kind": "static", "fen": p.to_fen(), "eval": a, "eval_flipped": b}));
            }
            if !p.has_legal_move() {
                let v = eval_hook(&p, false);
                println!("terminal value for the mover: {}", v);
                if p.in_check(p.stm) && (v >= 0 || !verif::is_checkmate_value(v)) {
                    rep.report("mated_side_not_given_a_losing_mate_score".to_string(), json!({"kind": "terminal", "fen": p.to_fen(), "value_for_mover": v}));
                }
                if !p.in_check(p.stm) && v != verif::draw_score() {
                    rep.report("stalemate_not_scored_as_draw".to_string(), json!({"kind": "terminal", "fen": p.to_fen(), "value_for_mover": v}));
                }
            } else if kind == "search_pair" {
                let mut s1 = Session::new(false);
                let mut s2 = Session::new(false);
                for d in 1..=depth {
                    let x = search_depth(&mut s1, &p, &[], d, "");
                    let y = search_depth(&mut s2, &f, &[], d, "");
                    println!("depth {}: {:?} vs flipped {:?}", d, x.score, y.score);
                    if x.score != y.score {
                        rep.report(format!("search_score_not_colour_symmetric:depth{}", d), json!({"kind": "search_pair", "fen": p.to_fen(), "depth": d}));
                    }
                }
                s1.quit();
                s2.quit();
            }
        }
        ("C10", "fifty") => {
            let mut sess = Session::new(false);
            let out = search_depth(&mut sess, &p, &[], depth, "");
            sess.quit();
            let eval = |q: &Pos, l: bool| eval_fifty(q, l);
            let mut rs = RefSearch::new(&eval);
            let (value, _) = rs.root(&p, depth, None);
            let expected = verif::score_from_value(value, &board_of(&p));
            println!("engine {:?}, reference (threshold 100 plies) {:?}", out.score, expected);
            if out.score != Some(expected) {
                rep.report("fifty_move_value_differs".to_string(), json!({"kind": "fifty", "fen": p.to_fen(), "depth": depth}));
            }
        }
        ("C10", "history") => {
            let moves: Vec<String> = case["history"].as_array().map(|a| a.iter().map(|v| v.as_str().unwrap_or("").to_string()).collect()).unwrap_or_default();
            let sm = case["searchmove"].as_str().unwrap_or("").to_string();
            let mut line = vec![p.clone()];
            for u in &moves {
                let q = line.last().unwrap().clone();
                match q.find_legal_uci(u) {
                    Some(m) => line.push(q.make(&m)),
                    None => return 2,
                }
            }
            let root = line.last().unwrap().clone();
            let mut sess = Session::new(false);
            let out = search_depth(&mut sess, &p, &moves, depth, &format!(" searchmoves {}", sm));
            sess.quit();
            let eval = |q: &Pos, l: bool| eval_hook(q, l);
            let mut ok = false;
            let mut wants = Vec::new();
            for c in [verif::contempt(), -verif::contempt()] {
                let mut rs = RefSearch::new(&eval);
                rs.history = line[..line.len() - 1].to_vec();
                rs.repetition = Some(RepRule { draw: verif::draw_score(), contempt: c });
                let w = rs.root(&root, depth, Some(&[sm.clone()])).1[0].1;
                wants.push(w);
                if out.score == Some(Score::Centipawn { score: w }) {
                    ok = true;
                }
            }
            println!("engine {:?}, reference {:?}", out.score, wants);
            if !ok {
                rep.report("value_differs_from_reference_with_repetition_rule".to_string(), json!({"kind": "history", "base": p.to_fen(), "history": moves, "searchmove": sm, "depth": depth}));
            }
        }
        ("C10", "history_whole_root") => {
            let moves: Vec<String> = case["history"].as_array().map(|a| a.iter().map(|v| v.as_str().unwrap_or("").to_string()).collect()).unwrap_or_default();
            let mut line = vec![p.clone()];
            for u in &moves {
                let q = line.last().unwrap().clone();
                match q.find_legal_uci(u) {
                    Some(m) => line.push(q.make(&m)),
                    None => return 2,
                }
            }
            let root = line.last().unwrap().clone();
            let mut sess = Session::new(false);
            let out = search_depth(&mut sess, &p, &moves, depth, "");
            sess.quit();
            let eval = |q: &Pos, l: bool| eval_hook(q, l);
            let mut ok = false;
            let mut wants = Vec::new();
            for c in [verif::contempt(), -verif::contempt()] {
                let mut rs = RefSearch::new(&eval);
                rs.history = line[..line.len() - 1].to_vec();
                rs.repetition = Some(RepRule { draw: verif::draw_score(), contempt: c });
                let (w, per_move) = rs.root(&root, depth, None);
                wants.push(w);
                if c > 0 {
                    println!("reference values of the root moves: {:?}", per_move.iter().map(|(m, v)| format!("{} {}", m.uci(), v)).collect::<Vec<_>>());
                }
                if out.score == Some(Score::Centipawn { score: w }) || (verif::is_checkmate_value(w) && out.score == Some(verif::score_from_value(w, &board_of(&root)))) {
                    ok = true;
                }
            }
            println!("go depth {} on the whole root after the history: engine {:?} {:?}, reference root value {:?}", depth, out.score, out.best, wants);
            if !ok {
                rep.report("whole_root_value_differs_from_reference_with_repetition_rule".to_string(), json!({"kind": "history_whole_root", "base": p.to_fen(), "history": moves, "depth": depth}));
            }
        }
        ("C10", "game") => {
            let moves: Vec<String> = case["history"].as_array().map(|a| a.iter().map(|v| v.as_str().unwrap_or("").to_string()).collect()).unwrap_or_default();
            c10_game(&rep, &p, depth, 0, Some(&moves));
        }
        ("C10", "history_leak_rejected") => {
            let moves: Vec<String> = case["history"].as_array().map(|a| a.iter().map(|v| v.as_str().unwrap_or("").to_string()).collect()).unwrap_or_default();
            let sm = case["searchmove"].as_str().unwrap_or("").to_string();
            let rejected = case["rejected_command"].as_str().unwrap_or("").to_string();
            let mut sess = Session::new(false);
            sess.line(&position_line(&p, &moves));
            sess.line(&rejected);
            let out = run_go(&mut sess, &format!("go depth 1 searchmoves {}", sm), Plan::virtual_rate(1000), &no_actions);
            sess.quit();
            let mut fresh = Session::new(false);
            let f = search_depth(&mut fresh, &p, &moves, 1, &format!(" searchmoves {}", sm));
            fresh.quit();
            println!("after the rejected command: {:?} {:?}; engine that never saw it: {:?} {:?}", out.score, out.best, f.score, f.best);
            if out.score != f.score {
                rep.report("history_changed_by_a_rejected_position_command".to_string(), json!({"kind": "history_leak_rejected", "base": p.to_fen(), "history": moves, "rejected_command": rejected, "searchmove": sm}));
            }
        }
        ("C10", "history_leak") => {
            let moves: Vec<String> = case["history"].as_array().map(|a| a.iter().map(|v| v.as_str().unwrap_or("").to_string()).collect()).unwrap_or_default();
            let cut = case["cut"].as_u64().unwrap_or(0) as usize;
            let sm = case["searchmove"].as_str().unwrap_or("").to_string();
            let mut line = vec![p.clone()];
            for u in &moves {
                let q = line.last().unwrap().clone();
                match q.find_legal_uci(u) {
                    Some(m) => line.push(q.make(&m)),
                    None => return 2,
                }
            }
            let root = line[cut.min(line.len() - 1)].clone();
            let mut sess = Session::new(false);
            sess.line(&position_line(&p, &moves));
            if case["searched_first"].as_bool().unwrap_or(false) {
                let _ = run_go(&mut sess, "go depth 1", Plan::virtual_rate(1000), &no_actions);
            }
            if case["ucinewgame_between"].as_bool().unwrap_or(false) {
                sess.line("ucinewgame");
            }
            let out = search_depth(&mut sess, &root, &[], 1, &format!(" searchmoves {}", sm));
            sess.quit();
            let mut fresh = Session::new(false);
            let f = search_depth(&mut fresh, &root, &[], 1, &format!(" searchmoves {}", sm));
            fresh.quit();
            println!("after the earlier game: {:?}; fresh engine: {:?}", out.score, f.score);
            if out.score != f.score {
                rep.report("history_of_an_earlier_position_command_counted".to_string(), json!({"kind": "history_leak", "base": p.to_fen(), "history": moves, "cut": cut, "searchmove": sm}));
            }
        }
        ("C10", "long_history") => {
            let moves: Vec<String> = case["history"].as_array().map(|a| a.iter().map(|v| v.as_str().unwrap_or("").to_string()).collect()).unwrap_or_default();
            let sm = case["searchmove"].as_str().map(|s| s.to_string());
            c10_long_history_query(&rep, &p, &moves, depth, sm.as_deref(), true);
        }
        ("C10", "cycle") => {
            let moves: Vec<String> = case["history"].as_array().map(|a| a.iter().map(|v| v.as_str().unwrap_or("").to_string()).collect()).unwrap_or_default();
            c10_cycle_query(&rep, &p, &moves, depth, true);
        }
        ("C10", "history_unit") => {
            let seq: Vec<u64> = case["sequence"].as_array().map(|a| a.iter().map(|v| v.as_u64().unwrap_or(0)).collect()).unwrap_or_default();
            let base = case["base_index"].as_u64().unwrap_or(0) as u16;
            let window = case["halfmove_window"].as_u64().unwrap_or(0) as u16;
            let mut h = verif::History::new();
            for (i, s) in seq.iter().enumerate() {
                h.set(base + i as u16, *s);
            }
            let got = h.count_repetitions(base + seq.len() as u16 - 1, window);
            println!("count_repetitions = {}", got);
            let len = seq.len();
            let lo = (len - 1).saturating_sub(window as usize);
            let occ = (lo..len).filter(|&i| seq[i] == seq[len - 1] && (len - 1 - i) % 2 == 0).count();
            if (got >= 3) != (occ >= 3) {
                rep.report("repetition_counter".to_string(), json!({"kind": "history_unit", "sequence": seq, "base_index": base, "halfmove_window": window}));
            }
        }
        _ => {
            eprintln!("replay kind {} not supported for {}", kind, id);
            return 2;
        }
    }
    println!("replay: {} violating case(s) reproduced", rep.violation_count());
    let mut cov = Coverage::new();
    cov.states = 1;
    finish(&rep, Tier::Quick, cov, started)
}
