//! Per-state / per-transition oracles for C01, C02, C03, C05, C06, C12 (decode part), C14
//! (writer + round trip part). One visitor, each property enables only its own oracles.

use crate::common::*;
use crate::families::*;
use inkayaku_board::constants::NO_SQUARE;
use inkayaku_board::{Bitboard, Move};
use inkayaku_core::constants::{Color, Square};
use inkayaku_core::fen::Fen;
use refchess::san::san;
use refchess::*;
use serde_json::{json, Value};
use std::collections::{BTreeMap, HashMap};
use std::str::FromStr;
use std::sync::Mutex;

#[derive(Clone, Copy, PartialEq, Eq, Debug)]
pub enum Prop {
    C01,
    C02,
    C03,
    C05,
    C06,
    C12,
    C14,
}

impl Prop {
    pub fn id(&self) -> &'static str {
        match self {
            Prop::C01 => "C01",
            Prop::C02 => "C02",
            Prop::C03 => "C03",
            Prop::C05 => "C05",
            Prop::C06 => "C06",
            Prop::C12 => "C12",
            Prop::C14 => "C14",
        }
    }
}

pub fn class_of(m: &Mv) -> String {
    let pl = kind_letter_lower(m.piece).to_ascii_uppercase();
    if m.is_castle {
        return if file_of(m.to) == 6 { "castle-K".into() } else { "castle-Q".into() };
    }
    if m.is_ep {
        return "ep".into();
    }
    if m.promo != 0 {
        return format!("promo{}{}", if m.is_capture() { "-capture" } else { "" }, kind_letter_lower(m.promo));
    }
    if m.is_capture() {
        return format!("{}-capture", pl);
    }
    if m.piece == PAWN && (row_of(m.from) - row_of(m.to)).abs() == 2 {
        return "double-push".into();
    }
    format!("{}-quiet", pl)
}

/// numeric identity of a move (source, target, promotion) — avoids formatting strings in lookups
#[inline]
pub fn mkey_ref(m: &Mv) -> u32 {
    ((m.from as u32) << 10) | ((m.to as u32) << 4) | m.promo as u32
}
#[inline]
pub fn mkey_sub(m: &Move) -> u32 {
    (m.get_source_square() << 10) | (m.get_target_square() << 4) | m.get_promotion_piece() as u32
}

pub fn class_of_subject(m: &Move) -> String {
    format!(
        "piece{}{}{}{}{}",
        m.get_piece_moved(),
        if m.is_castle_move() { "-castle" } else { "" },
        if m.is_en_passant_attack() { "-ep" } else { "" },
        if m.is_promotion() { "-promo" } else { "" },
        if m.is_attack() { "-capture" } else { "" }
    )
}

pub struct BoardCtx<'a> {
    pub prop: Prop,
    pub rep: &'a Reporter,
    pub counters: Counters,
    pub samples: Mutex<Vec<Value>>,
    /// C06: (hash, pawn hash, key) of every visited state, for function/injectivity checks
    pub hashes: Mutex<Vec<(u64, u64, Key)>>,
    pub collect_hashes: bool,
    /// C06: run the single-component variant oracle on this state? decided by caller
    pub variants_every: u64,
    pub render_all: bool,
    /// C02: the FEN text of the successors is compared on states whose hash % render_mod == 0
    pub render_mod: std::sync::atomic::AtomicU64,
    pub transitions: std::sync::atomic::AtomicU64,
    pub states: std::sync::atomic::AtomicU64,
}

impl<'a> BoardCtx<'a> {
    pub fn new(prop: Prop, rep: &'a Reporter) -> Self {
        BoardCtx {
            prop,
            rep,
            counters: Counters::default(),
            samples: Mutex::new(Vec::new()),
            hashes: Mutex::new(Vec::new()),
            collect_hashes: prop == Prop::C06,
            variants_every: 0,
            render_all: false,
            render_mod: std::sync::atomic::AtomicU64::new(8),
            transitions: Default::default(),
            states: Default::default(),
        }
    }

    fn viol(&self, sig: String, fen: &str, extra: Value) {
        let mut d = json!({"kind": "state", "fen": fen});
        if let (Some(o), Some(e)) = (d.as_object_mut(), extra.as_object()) {
            for (k, v) in e {
                o.insert(k.clone(), v.clone());
            }
        }
        self.rep.report(sig, d);
    }
}

fn sorted(mut v: Vec<String>) -> Vec<String> {
    v.sort();
    v
}

fn has_dups(v: &[String]) -> bool {
    v.windows(2).any(|w| w[0] == w[1])
}

/// counters describing what a state/move exercises (non-vacuity evidence)
fn count_state(local: &mut BTreeMap<&'static str, u64>, p: &Pos, legal: &[Mv]) {
    *local.entry("states").or_insert(0) += 1;
    let me = p.stm;
    if p.in_check(me) {
        *local.entry("in_check_states").or_insert(0) += 1;
        let k = p.king_sq(me).unwrap();
        let att = p.attackers(k, 1 - me);
        if att.len() >= 2 {
            *local.entry("double_check_states").or_insert(0) += 1;
        }
        for (_, kind) in att {
            let name = match kind {
                PAWN => "check_by_pawn",
                KNIGHT => "check_by_knight",
                BISHOP => "check_by_bishop",
                ROOK => "check_by_rook",
                QUEEN => "check_by_queen",
                _ => "check_by_king?!",
            };
            *local.entry(name).or_insert(0) += 1;
        }
        if legal.is_empty() {
            *local.entry("mates").or_insert(0) += 1;
        }
    } else if legal.is_empty() {
        *local.entry("stalemates").or_insert(0) += 1;
    }
    if p.ep != NO_EP {
        *local.entry("ep_states").or_insert(0) += 1;
    }
    if p.castle != 0 {
        *local.entry("states_with_rights").or_insert(0) += 1;
    }
    for m in legal {
        if m.is_castle {
            let n = match (me, file_of(m.to)) {
                (WHITE, 6) => "castle_WK",
                (WHITE, _) => "castle_WQ",
                (_, 6) => "castle_BK",
                _ => "castle_BQ",
            };
            *local.entry(n).or_insert(0) += 1;
        }
        if m.is_ep {
            *local.entry("ep_captures").or_insert(0) += 1;
        }
        if m.promo != 0 {
            *local.entry(if m.is_capture() { "capture_promotions" } else { "promotions" }).or_insert(0) += 1;
        }
    }
}

pub fn visit(ctx: &BoardCtx, p: &Pos) {
    ctx.states.fetch_add(1, std::sync::atomic::Ordering::Relaxed);
    let fen = p.to_fen();
    set_current_case(&fen);
    ctx.rep.sample(|| json!({"state": fen, "legal_moves": p.legal().iter().map(|m| m.uci()).collect::<Vec<_>>(), "judged_for": ctx.prop.id()}));
    if !p.is_legal_position() {
        // never hand the subject an illegal position (DESIGN §6.1)
        ctx.rep.machinery(format!("illegal position generated by the harness: {}", fen));
        return;
    }
    let mut b = match board_from_pos(p) {
        Ok(b) => b,
        Err(e) => {
            if ctx.prop == Prop::C12 {
                ctx.viol("reject_or_panic_on_valid_fen".into(), &fen, json!({"error": e}));
            } else {
                ctx.rep.machinery(format!("cannot build subject position: {}", e));
            }
            return;
        }
    };
    // Every judged state comes right after other work on this thread: on every sixteenth state the
    // whole API is first exercised on an unrelated board (rejected requests included), so that
    // per-thread scratch state of any of these functions is "dirty" when the judged calls are made.
    if ctx.states.load(std::sync::atomic::Ordering::Relaxed) % 16 == 0 {
        let _ = guarded(|| foreign_activity());
    }
    // ... and, where the side to move still has a castling right (and on every 64th other state),
    // right after the same questions were asked about its SAME-OCCUPANCY TWINS: the enemy king swapped
    // with one of the mover's men. Whatever a function remembers about "the last position" under a key
    // made of occupancies and some of the piece sets is then wrong for the judged one.
    if matches!(ctx.prop, Prop::C01 | Prop::C05) {
        let rights = if p.stm == WHITE { p.castle & (CASTLE_WK | CASTLE_WQ) } else { p.castle & (CASTLE_BK | CASTLE_BQ) };
        if rights != 0 || ctx.states.load(std::sync::atomic::Ordering::Relaxed) % 64 == 1 {
            if let Some(ek) = (0..64u8).find(|&sq| p.board[sq as usize] == pc(1 - p.stm, KING)) {
                for sq in 0..64u8 {
                    let x = p.board[sq as usize];
                    if x == EMPTY || pc_color(x) != p.stm || pc_kind(x) == KING || (pc_kind(x) == PAWN && (row_of(ek) == 0 || row_of(ek) == 7)) {
                        continue;
                    }
                    let mut twin = p.clone();
                    twin.board[ek as usize] = x;
                    twin.board[sq as usize] = pc(1 - p.stm, KING);
                    // (rights that depend on the swapped man's square go with it)
                    if pc_kind(x) == ROOK {
                        twin.castle = 0;
                    }
                    twin.ep = NO_EP;
                    if twin.is_legal_position() {
                        let _ = guarded(|| {
                            if let Ok(mut tb) = board_from_pos(&twin) {
                                let _ = tb.generate_legal_moves();
                                let _ = tb.is_current_in_check();
                            }
                        });
                    }
                }
            }
        }
    }
    let r = guarded(|| match ctx.prop {
        Prop::C01 => c01(ctx, p, &fen, &mut b),
        Prop::C02 => c02(ctx, p, &fen, &mut b),
        Prop::C03 => c03(ctx, p, &fen, &mut b),
        Prop::C05 => c05(ctx, p, &fen, &mut b),
        Prop::C06 => c06(ctx, p, &fen, &mut b),
        Prop::C12 => c12(ctx, p, &fen, &b),
        Prop::C14 => c14(ctx, p, &fen, &mut b),
    });
    if let Err(msg) = r {
        ctx.viol(format!("panic:{}", short(&msg)), &fen, json!({"panic": msg}));
    }
}

thread_local! {
    /// another board living on this thread (half-move clock 33), with its snapshot
    static OTHER_BOARD: std::cell::RefCell<Option<(Bitboard, Snap)>> = std::cell::RefCell::new(None);
}

/// makes a capture (clock-resetting) on the thread's other board and leaves it outstanding
fn other_board_make() -> Option<Move> {
    OTHER_BOARD.with(|o| {
        let mut o = o.borrow_mut();
        if o.is_none() {
            let b = Bitboard::from_fen_string("4k3/8/8/3p4/4P3/8/8/4K3 w - - 33 60").ok()?;
            let s = snap(&b);
            *o = Some((b, s));
        }
        let (b, _) = o.as_mut()?;
        let mv = b.generate_pseudo_legal_moves().into_iter().find(|m| m.is_attack())?;
        b.make(mv);
        Some(mv)
    })
}

/// takes the outstanding move back; true if the other board is exactly what it was
fn other_board_unmake(mv: Move) -> bool {
    OTHER_BOARD.with(|o| {
        let mut o = o.borrow_mut();
        match o.as_mut() {
            Some((b, s)) => {
                b.unmake(mv);
                let ok = snap(b) == *s;
                if !ok {
                    *o = None; // rebuilt next time
                }
                ok
            }
            None => true,
        }
    })
}

/// a fixed round of calls on two unrelated boards (one per colour to move)
fn foreign_activity() {
    thread_local! {
        static BOARDS: std::cell::RefCell<Vec<Bitboard>> = std::cell::RefCell::new(Vec::new());
        static TURN: std::cell::Cell<usize> = std::cell::Cell::new(0);
    }
    BOARDS.with(|bs| {
        let mut bs = bs.borrow_mut();
        if bs.is_empty() {
            for f in ["r3k2r/pP4pp/2n3n1/3pP3/1N1QQ1N1/8/PP3RPP/R3K2R w KQkq d6 7 21", "r3k2r/pp4pp/2n1q1n1/8/1N1pP1N1/8/PPp3PP/R3K2R b KQkq e3 0 33"] {
                if let Ok(b) = Bitboard::from_fen_string(f) {
                    bs.push(b);
                }
            }
        }
        if bs.is_empty() {
            return;
        }
        let i = TURN.with(|t| {
            let v = t.get();
            t.set(v + 1);
            v
        }) % bs.len();
        let b = &mut bs[i];
        let legal = b.generate_legal_moves();
        let mut buf = Vec::new();
        b.generate_pseudo_legal_non_quiescent_moves_with_buffer(&mut buf);
        let _ = b.is_any_move_legal(&buf);
        let _ = b.is_current_in_check();
        let _ = b.calculate_zobrist_hash();
        for mv in legal.iter().take(3) {
            let _ = Bitboard::zobrist_xor(*mv);
            let _ = b.uci_to_pgn(&mv.to_uci_string());
            b.make(*mv);
            let _ = b.is_valid();
            b.unmake(*mv);
        }
        let _ = b.find_uci("a1a2");
        let _ = b.uci_to_pgn("h8h1");
        let _ = b.pgn_to_bb("Qz9");
        let _ = b.make_all_uci(&["a2a3".to_string(), "a2a3".to_string()]);
        let _ = Fen::from(&*b);
    });
}

pub fn short(msg: &str) -> String {
    let s: String = msg.chars().filter(|c| !c.is_ascii_digit()).take(60).collect();
    s
}

// ---------------------------------------------------------------------------------------
// C01

/// a Move value generated on a position that differs from `p` in side to move, clocks and e.p. square
fn foreign_sentinel(p: &Pos) -> Option<Move> {
    thread_local! {
        static FOREIGN: std::cell::RefCell<Option<[Move; 2]>> = std::cell::RefCell::new(None);
    }
    FOREIGN.with(|f| {
        let mut f = f.borrow_mut();
        if f.is_none() {
            let w = Bitboard::from_fen_string("4k3/8/8/3pP3/8/8/8/4K3 w - d6 0 1").ok()?.generate_pseudo_legal_moves();
            let b = Bitboard::from_fen_string("4k3/8/8/8/3Pp3/8/8/4K3 b - d3 0 1").ok()?.generate_pseudo_legal_moves();
            *f = Some([*w.first()?, *b.first()?]);
        }
        // the one whose side to move is the other one
        f.as_ref().map(|m| if p.stm == WHITE { m[1] } else { m[0] })
    })
}

fn c01(ctx: &BoardCtx, p: &Pos, fen: &str, b: &mut Bitboard) {
    let ref_legal = p.legal();
    let mut local = BTreeMap::new();
    count_state(&mut local, p, &ref_legal);
    let expected = sorted(ref_legal.iter().map(|m| m.uci()).collect());
    // (1) generate_legal_moves
    let sub_legal = b.generate_legal_moves();
    let actual = sorted(sub_legal.iter().map(|m| m.to_uci_string()).collect());
    if has_dups(&actual) {
        ctx.viol("legal_set:duplicates".into(), fen, json!({"actual": actual}));
    }
    if actual != expected {
        report_set_diff(ctx, "legal_set", fen, &ref_legal, &sub_legal, &expected, &actual);
    }
    // (2) pseudo-legal + make / is_valid / unmake
    let pseudo = b.generate_pseudo_legal_moves();
    let mut filtered = Vec::new();
    for &mv in &pseudo {
        b.make(mv);
        let ok = b.is_valid();
        b.unmake(mv);
        if ok {
            filtered.push(mv);
        }
    }
    let actual2 = sorted(filtered.iter().map(|m| m.to_uci_string()).collect());
    if has_dups(&actual2) {
        ctx.viol("pseudo_filter:duplicates".into(), fen, json!({"actual": actual2}));
    }
    if actual2 != expected {
        report_set_diff(ctx, "pseudo_filter", fen, &ref_legal, &filtered, &expected, &actual2);
    }
    // (3) capture/promotion-only generator
    let nonq = b.generate_pseudo_legal_non_quiescent_moves();
    let mut nonq_bits: Vec<u64> = nonq.iter().map(|m| m.bits).collect();
    nonq_bits.sort();
    let mut expect_bits: Vec<u64> = pseudo.iter().filter(|m| m.is_attack() || m.is_promotion()).map(|m| m.bits).collect();
    expect_bits.sort();
    if nonq_bits != expect_bits {
        ctx.viol(
            "nonquiescent:not_the_capture_promotion_subset_of_pseudo".into(),
            fen,
            json!({"nonq": nonq.iter().map(|m| m.to_uci_string()).collect::<Vec<_>>(), "expected_subset": pseudo.iter().filter(|m| m.is_attack() || m.is_promotion()).map(|m| m.to_uci_string()).collect::<Vec<_>>()}),
        );
    }
    let mut nonq_legal = Vec::new();
    for &mv in &nonq {
        b.make(mv);
        let ok = b.is_valid();
        b.unmake(mv);
        if ok {
            nonq_legal.push(mv.to_uci_string());
        }
    }
    let nonq_legal = sorted(nonq_legal);
    let expected_nonq = sorted(ref_legal.iter().filter(|m| m.is_capture() || m.promo != 0).map(|m| m.uci()).collect());
    if nonq_legal != expected_nonq {
        ctx.viol("nonquiescent:legal_subset_differs".into(), fen, json!({"expected": expected_nonq, "actual": nonq_legal}));
    }
    // (3b) every public entry point of the generator gives the same answer: the `_with_buffer`
    // forms (what the search calls, into a buffer that already holds something), `is_move_legal`,
    // `is_any_move_non_quiescent`
    {
        // what already is in the buffer belongs to ANOTHER position (other side to move, another
        // clock, a pending e.p. square) — as in a line whose plies share one growing buffer — and
        // must come out of the call bit for bit as it went in (or be gone, if the call clears)
        let sentinel = foreign_sentinel(p);
        let mut buf: Vec<Move> = sentinel.into_iter().collect();
        let keep = buf.len();
        b.generate_pseudo_legal_moves_with_buffer(&mut buf);
        if buf.len() == keep + pseudo.len() && keep > 0 && buf[..keep].iter().map(|m| m.bits).collect::<Vec<_>>() != sentinel.iter().map(|m| m.bits).collect::<Vec<_>>() {
            ctx.viol("entry_points:generator_call_changed_moves_already_in_the_buffer".into(), fen, json!({"before": sentinel.iter().map(|m| m.bits).collect::<Vec<_>>(), "after": buf[..keep].iter().map(|m| m.bits).collect::<Vec<_>>()}));
        }
        // whether the function appends to the buffer or starts by clearing it is not specified:
        // both are accepted, the moves it contributes must be the plain form's
        let tail = |buf: &Vec<Move>, n: usize| -> Vec<u64> {
            let from = if buf.len() == n { 0 } else { keep.min(buf.len()) };
            let mut v: Vec<u64> = buf[from..].iter().map(|m| m.bits).collect();
            v.sort();
            v
        };
        let a = tail(&buf, pseudo.len());
        let mut e: Vec<u64> = pseudo.iter().map(|m| m.bits).collect();
        e.sort();
        if a != e {
            ctx.viol("entry_points:generate_pseudo_legal_moves_with_buffer_differs".into(), fen, json!({"with_buffer": buf.iter().map(|m| m.to_uci_string()).collect::<Vec<_>>(), "plain": pseudo.iter().map(|m| m.to_uci_string()).collect::<Vec<_>>()}));
        }
        let mut buf: Vec<Move> = sentinel.into_iter().collect();
        b.generate_pseudo_legal_non_quiescent_moves_with_buffer(&mut buf);
        if buf.len() == keep + nonq.len() && keep > 0 && buf[..keep].iter().map(|m| m.bits).collect::<Vec<_>>() != sentinel.iter().map(|m| m.bits).collect::<Vec<_>>() {
            ctx.viol("entry_points:generator_call_changed_moves_already_in_the_buffer:non_quiescent".into(), fen, json!({"before": sentinel.iter().map(|m| m.bits).collect::<Vec<_>>(), "after": buf[..keep].iter().map(|m| m.bits).collect::<Vec<_>>()}));
        }
        let a = tail(&buf, nonq.len());
        if a != nonq_bits {
            ctx.viol("entry_points:generate_pseudo_legal_non_quiescent_moves_with_buffer_differs".into(), fen, json!({"with_buffer": buf.iter().map(|m| m.to_uci_string()).collect::<Vec<_>>(), "plain": nonq.iter().map(|m| m.to_uci_string()).collect::<Vec<_>>()}));
        }
        let any_nq = Bitboard::is_any_move_non_quiescent(&pseudo);
        let want_nq = p.pseudo_legal().iter().any(|m| m.is_capture() || m.promo != 0);
        if any_nq != want_nq {
            ctx.viol(format!("entry_points:is_any_move_non_quiescent:expected_{}", want_nq), fen, json!({"expected": want_nq, "actual": any_nq}));
        }
        let legal_set: std::collections::HashSet<&String> = expected.iter().collect();
        for &mv in &pseudo {
            let u = mv.to_uci_string();
            let got = b.is_move_legal(mv);
            if got != legal_set.contains(&u) {
                ctx.viol(format!("entry_points:is_move_legal:expected_{}", !got), fen, json!({"move": u, "expected": !got, "actual": got}));
            }
        }
    }
    // (4) flags of every legal move
    for rm in &ref_legal {
        let u = rm.uci();
        let rk = mkey_ref(rm);
        if let Some(sm) = sub_legal.iter().find(|m| mkey_sub(m) == rk) {
            let mut bad = Vec::new();
            if sm.get_piece_moved() != rm.piece as u64 {
                bad.push("piece_moved");
            }
            if sm.get_piece_attacked() != rm.captured as u64 {
                bad.push("piece_attacked");
            }
            if sm.is_en_passant_attack() != rm.is_ep {
                bad.push("ep_flag");
            }
            if sm.is_castle_move() != rm.is_castle {
                bad.push("castle_flag");
            }
            if sm.get_promotion_piece() != rm.promo as u64 {
                bad.push("promotion_piece");
            }
            if sm.get_side_to_move() != p.stm as u32 {
                bad.push("side_to_move");
            }
            if !bad.is_empty() {
                ctx.viol(format!("move_flags:{}:{}", bad.join("+"), class_of(rm)), fen, json!({"move": u, "bad": bad}));
            }
        }
    }
    // (5) perft(1) lists exactly the legal set
    let pf = b.perft(1);
    let actual5 = sorted(pf.iter().map(|(m, _)| m.to_uci_string()).collect());
    if actual5 != expected || pf.iter().any(|(_, c)| *c != 1) {
        ctx.viol("perft1:list_differs".into(), fen, json!({"expected": expected, "actual": actual5}));
    }
    ctx.transitions.fetch_add(pseudo.len() as u64, std::sync::atomic::Ordering::Relaxed);
    ctx.counters.add_all(&local);
}

fn report_set_diff(ctx: &BoardCtx, what: &str, fen: &str, ref_legal: &[Mv], sub: &[Move], expected: &[String], actual: &[String]) {
    let missing: Vec<&Mv> = ref_legal.iter().filter(|m| !actual.contains(&m.uci())).collect();
    let extra: Vec<&Move> = sub.iter().filter(|m| !expected.contains(&m.to_uci_string())).collect();
    for m in missing.iter().take(3) {
        ctx.viol(format!("{}:missing:{}", what, class_of(m)), fen, json!({"missing": m.uci(), "expected": expected, "actual": actual}));
    }
    for m in extra.iter().take(3) {
        ctx.viol(format!("{}:extra:{}", what, class_of_subject(m)), fen, json!({"extra": m.to_uci_string(), "expected": expected, "actual": actual}));
    }
}

/// perft(d) comparison on one root (C01 (5))
pub fn c01_perft_root(ctx: &BoardCtx, p: &Pos, depth: u32) {
    let fen = p.to_fen();
    let mut b = match board_from_pos(p) {
        Ok(b) => b,
        Err(e) => {
            ctx.rep.machinery(e);
            return;
        }
    };
    for d in 1..=depth {
        let expected = p.perft(d);
        match guarded(|| b.perft(d as usize).iter().map(|(_, c)| *c).sum::<u64>()) {
            Ok(actual) => {
                if actual != expected {
                    ctx.viol(format!("perft:depth{}", d), &fen, json!({"kind": "perft", "depth": d, "expected": expected, "actual": actual}));
                }
            }
            Err(msg) => ctx.viol(format!("panic:{}", short(&msg)), &fen, json!({"kind": "perft", "depth": d, "panic": msg})),
        }
        ctx.transitions.fetch_add(expected, std::sync::atomic::Ordering::Relaxed);
    }
}

// ---------------------------------------------------------------------------------------
// C02

fn fen_field_diff(expected: &str, actual: &str) -> Vec<&'static str> {
    let names = ["placement", "side", "rights", "ep", "halfmove", "fullmove"];
    let e: Vec<&str> = expected.split(' ').collect();
    let a: Vec<&str> = actual.split(' ').collect();
    let mut d = Vec::new();
    if e.len() != a.len() {
        d.push("field_count");
        return d;
    }
    for i in 0..e.len().min(6) {
        if e[i] != a[i] {
            d.push(names[i]);
        }
    }
    d
}

fn c02(ctx: &BoardCtx, p: &Pos, fen: &str, b: &mut Bitboard) {
    let ref_legal = p.legal();
    let mut local = BTreeMap::new();
    count_state(&mut local, p, &ref_legal);
    let pseudo = b.generate_pseudo_legal_moves();
    let before = snap(b);
    let before_lite = lite(b);
    // the FEN writer (regex re-validation inside) is the expensive part: every successor is
    // compared field by field through the snapshot; the textual rendering is compared on every
    // state in thorough runs and on a deterministic 1/8 of the states in quick runs
    // the regex-validated writer costs ~40 us per successor: the caller sets, per family, on which
    // fraction of the states the text is compared (the field comparison runs on all of them)
    let render_fen = before.hash % ctx.render_mod.load(std::sync::atomic::Ordering::Relaxed).max(1) == 0;
    for rm in &ref_legal {
        let u = || rm.uci();
        let rk = mkey_ref(rm);
        let sm = match pseudo.iter().find(|m| mkey_sub(m) == rk) {
            Some(m) => *m,
            None => continue, // C01's business
        };
        let succ = p.make(rm);
        b.make(sm);
        let got = lite_to_pos(&lite(b));
        if got != succ {
            let expected = succ.to_fen();
            let actual = got.to_fen();
            let d = fen_field_diff(&expected, &actual);
            ctx.viol(format!("successor:{}:{}", d.join("+"), class_of(rm)), fen, json!({"move": u(), "expected": expected, "actual": actual, "via": "fields"}));
        }
        if render_fen {
            let expected = succ.to_fen();
            let actual = Fen::from(&*b).fen;
            if actual != expected {
                let d = fen_field_diff(&expected, &actual);
                ctx.viol(format!("successor:{}:{}", d.join("+"), class_of(rm)), fen, json!({"move": u(), "expected": expected, "actual": actual, "via": "fen"}));
            }
            *local.entry("successors_rendered_as_fen").or_insert(0) += 1;
        }
        // rook captured at home / rights lost counters
        if succ.castle != p.castle {
            *local.entry("transitions_changing_rights").or_insert(0) += 1;
            if rm.is_capture() && [0u8, 7, 56, 63].contains(&rm.to) {
                *local.entry("rook_captured_at_home").or_insert(0) += 1;
            }
        }
        b.unmake(sm);
        if lite(b) != before_lite {
            // C03's business; rebuild so that later transitions of this state are judged fairly
            match board_from_pos(p) {
                Ok(nb) => *b = nb,
                Err(_) => return,
            }
        }
    }
    // the capture/promotion generator emits its own Move values (the quiescence search makes
    // them): their successors must be the rules' successors too
    let nonq = b.generate_pseudo_legal_non_quiescent_moves();
    for sm in nonq {
        let sk = mkey_sub(&sm);
        if let Some(rm) = ref_legal.iter().find(|m| mkey_ref(m) == sk) {
            let succ = p.make(rm);
            b.make(sm);
            let got = lite_to_pos(&lite(b));
            if got != succ {
                let expected = succ.to_fen();
                let actual = got.to_fen();
                let d = fen_field_diff(&expected, &actual);
                ctx.viol(format!("successor_of_capture_generator_move:{}:{}", d.join("+"), class_of(rm)), fen, json!({"move": rm.uci(), "expected": expected, "actual": actual, "generator": "generate_pseudo_legal_non_quiescent_moves"}));
            }
            b.unmake(sm);
            if lite(b) != before_lite {
                match board_from_pos(p) {
                    Ok(nb) => *b = nb,
                    Err(_) => return,
                }
            }
            *local.entry("capture_generator_moves_made").or_insert(0) += 1;
        }
    }
    ctx.transitions.fetch_add(ref_legal.len() as u64, std::sync::atomic::Ordering::Relaxed);
    ctx.counters.add_all(&local);
}

/// C02/C03/C06/C12 clock sweep on one position: for each (half, full) pair, every legal move
pub fn clock_sweep(ctx: &BoardCtx, base: &Pos, halves: &[u64], fulls: &[u64]) {
    for &h in halves {
        for &f in fulls {
            let mut p = base.clone();
            p.half = h;
            p.full = f;
            visit(ctx, &p);
        }
    }
}

// ---------------------------------------------------------------------------------------
// C03

#[derive(PartialEq, Eq, Clone)]
struct Lite {
    occ: [[u64; 6]; 2],
    misc: (u32, u32, u32, u32, [bool; 4]),
}
fn lite(b: &Bitboard) -> Lite {
    let mut occ = [[0u64; 6]; 2];
    for k in 1..=6u64 {
        occ[0][(k - 1) as usize] = b.white.occupancy(k);
        occ[1][(k - 1) as usize] = b.black.occupancy(k);
    }
    Lite { occ, misc: (b.turn, b.en_passant_square_shift, b.halfmove_clock, b.fullmove_clock, [b.white.king_side_castle, b.white.queen_side_castle, b.black.king_side_castle, b.black.queen_side_castle]) }
}

fn lite_to_pos(l: &Lite) -> Pos {
    let mut p = Pos::empty();
    for c in 0..2 {
        for k in 0..6 {
            let mut bits = l.occ[c][k];
            while bits != 0 {
                let s = bits.trailing_zeros() as usize;
                bits &= bits - 1;
                p.board[s] = pc(c as u8, (k + 1) as u8);
            }
        }
    }
    p.stm = l.misc.0 as u8;
    p.ep = if l.misc.1 == NO_SQUARE { NO_EP } else { l.misc.1 as u8 };
    p.half = l.misc.2 as u64;
    p.full = l.misc.3 as u64;
    let r = l.misc.4;
    p.castle = (r[0] as u8) | ((r[1] as u8) << 1) | ((r[2] as u8) << 2) | ((r[3] as u8) << 3);
    p
}

fn c03(ctx: &BoardCtx, p: &Pos, fen: &str, b: &mut Bitboard) {
    let pseudo = b.generate_pseudo_legal_moves();
    let ref_pseudo = p.pseudo_legal();
    let before = snap(b);
    let before_lite = lite(b);
    let mut local: BTreeMap<&'static str, u64> = BTreeMap::new();
    *local.entry("states").or_insert(0) += 1;
    for &mv in &pseudo {
        b.make(mv);
        let valid = b.is_valid();
        // a board's undo information is its own: for a quarter of the moves another board on this
        // thread makes a clock-resetting move while this one is outstanding, and takes it back only
        // after this one was taken back (interleaved, not nested)
        let interleave = mv.get_target_square() % 4 == 3;
        let other_move = if interleave { other_board_make() } else { None };
        b.unmake(mv);
        if let Some(om) = other_move {
            if !other_board_unmake(om) {
                ctx.viol("unmake:other_board_on_the_same_thread_not_restored".into(), fen, json!({"move": mv.to_uci_string()}));
            }
            *local.entry("unmakes_with_another_boards_move_outstanding").or_insert(0) += 1;
        }
        if !valid {
            *local.entry("illegal_pseudo_moves_unmade").or_insert(0) += 1;
        }
        // both hashes are recomputed from these fields, so field equality implies hash equality;
        // the full snapshot (hashes included) is compared once more after the last move
        if lite(b) != before_lite {
            let after = snap(b);
            let u = mv.to_uci_string();
            let class = ref_pseudo.iter().find(|m| m.uci() == u).map(class_of).unwrap_or_else(|| class_of_subject(&mv));
            let d = before.diff(&after);
            let clock_note = if p.half >= 4096 {
                ":half>=4096"
            } else if p.half >= 128 {
                ":half>=128"
            } else {
                ""
            };
            ctx.viol(
                format!("unmake:{}:{}{}", d.join("+"), class, clock_note),
                fen,
                json!({"move": u, "legal": valid, "diff": d, "before": before.to_pos().to_fen(), "after": after.to_pos().to_fen()}),
            );
            match board_from_pos(p) {
                Ok(nb) => *b = nb,
                Err(_) => return,
            }
        }
    }
    let end = snap(b);
    if end != before {
        ctx.viol(format!("unmake_all:{}", before.diff(&end).join("+")), fen, json!({"diff": before.diff(&end)}));
    }
    ctx.transitions.fetch_add(pseudo.len() as u64, std::sync::atomic::Ordering::Relaxed);
    ctx.counters.add_all(&local);
}

/// depth-first make^j ... unmake^j on ONE board instance; snapshot compared at every level on
/// the way back; also threads the incremental hash down the path (C06). Returns nodes.
pub fn dfs_lines(ctx: &BoardCtx, root: &Pos, depth: usize) -> u64 {
    let fen = root.to_fen();
    let mut b = match board_from_pos(root) {
        Ok(b) => b,
        Err(e) => {
            ctx.rep.machinery(e);
            return 0;
        }
    };
    let mut path: Vec<String> = Vec::new();
    let h = b.calculate_zobrist_hash();
    let ph = b.calculate_zobrist_pawn_hash();
    let r = guarded(|| dfs_rec(ctx, &fen, &mut b, depth, &mut path, h, ph));
    match r {
        Ok(n) => n,
        Err(msg) => {
            ctx.viol(format!("panic:{}", short(&msg)), &fen, json!({"kind":"line", "panic": msg}));
            0
        }
    }
}

/// long lines on ONE board instance: `plies` moves made (move chosen by a fixed rule among the
/// reference-legal moves, avoiding positions without moves), the snapshot remembered at every ply,
/// then everything unmade in reverse order with the snapshot compared at every ply — for undo
/// state that only runs out on long histories. C06 threads the incremental hash along the line,
/// C02 compares every successor with the reference. Returns plies made.
pub fn long_line(ctx: &BoardCtx, root: &Pos, plies: usize, rule: u64) -> u64 {
    let fen = root.to_fen();
    let mut b = match board_from_pos(root) {
        Ok(b) => b,
        Err(e) => {
            ctx.rep.machinery(e);
            return 0;
        }
    };
    let r = guarded(|| {
        let mut p = root.clone();
        let mut snaps: Vec<Snap> = Vec::with_capacity(plies);
        let mut made: Vec<Move> = Vec::with_capacity(plies);
        let mut h = b.calculate_zobrist_hash();
        let mut ph = b.calculate_zobrist_pawn_hash();
        let mut shared: Vec<Move> = Vec::new();
        let mut shared_idx: Vec<usize> = Vec::new();
        let mut shared_ok = rule == 7; // one of the two move-choice rules runs on the shared buffer
        for ply in 0..plies {
            let legal = p.legal();
            // prefer reversible moves so the line goes on; fixed, reproducible choice
            let cands: Vec<&Mv> = {
                let quiet: Vec<&Mv> = legal.iter().filter(|m| !m.is_capture() && m.piece != PAWN && p.make(m).has_legal_move()).collect();
                if p.half >= 4095 {
                    // the properties quantify over half-move clocks 0..4095: at the upper end only a
                    // move that resets the clock keeps the line inside the domain
                    legal.iter().filter(|m| (m.is_capture() || m.piece == PAWN) && p.make(m).has_legal_move()).collect()
                } else if quiet.is_empty() || (ply as u64 * 2654435761 + rule) % 97 == 0 {
                    legal.iter().filter(|m| p.make(m).has_legal_move()).collect()
                } else {
                    quiet
                }
            };
            if cands.is_empty() {
                break;
            }
            let rm = *cands[((ply as u64).wrapping_mul(rule).wrapping_add(rule >> 3) % cands.len() as u64) as usize];
            let rk = mkey_ref(&rm);
            // C03: the plies of the line share ONE growing buffer (generator called in its appending
            // form at every ply); the moves are taken back from that buffer at the end
            let sm = if ctx.prop == Prop::C03 && shared_ok {
                let before_len = shared.len();
                b.generate_pseudo_legal_moves_with_buffer(&mut shared);
                if shared.len() < before_len {
                    shared_ok = false; // the call clears the buffer: a legitimate alternative
                }
                let from = if shared_ok { before_len } else { 0 };
                match (from..shared.len()).find(|&i| mkey_sub(&shared[i]) == rk) {
                    Some(i) => {
                        shared_idx.push(i);
                        shared[i]
                    }
                    None => break,
                }
            } else {
                match b.generate_pseudo_legal_moves().into_iter().find(|m| mkey_sub(m) == rk) {
                    Some(m) => m,
                    None => break, // C01's business
                }
            };
            snaps.push(snap(&b));
            let (x, px) = Bitboard::zobrist_xor(sm);
            b.make(sm);
            made.push(sm);
            p = p.make(&rm);
            h ^= x;
            ph ^= px;
            match ctx.prop {
                Prop::C02 => {
                    let got = snap(&b).to_pos();
                    if got != p {
                        ctx.rep.report("long_line_successor_differs".to_string(), json!({"kind": "long_line", "fen": fen, "plies": plies, "rule": rule, "at_ply": ply, "expected": p.to_fen(), "actual": got.to_fen()}));
                        return ply as u64;
                    }
                }
                Prop::C06 => {
                    if b.calculate_zobrist_hash() != h || b.calculate_zobrist_pawn_hash() != ph {
                        ctx.rep.report("long_line_threaded_hash_differs".to_string(), json!({"kind": "long_line", "fen": fen, "plies": plies, "rule": rule, "at_ply": ply}));
                        return ply as u64;
                    }
                }
                _ => {}
            }
        }
        let n = made.len();
        if ctx.prop == Prop::C03 {
            for i in (0..n).rev() {
                // from the shared buffer, as it is NOW (after all the later generator calls)
                let mv = if shared_ok && shared_idx.len() == n { shared[shared_idx[i]] } else { made[i] };
                b.unmake(mv);
                let s = snap(&b);
                if s != snaps[i] {
                    let d = snaps[i].diff(&s);
                    ctx.rep.report(format!("long_line_unmake:{}", d.join("+")), json!({"kind": "long_line", "fen": fen, "plies": plies, "rule": rule, "line_length": n, "wrong_after_unmaking_ply": i, "diff": d, "expected": snaps[i].to_pos().to_fen(), "actual": s.to_pos().to_fen()}));
                    break;
                }
            }
        }
        n as u64
    });
    match r {
        Ok(n) => n,
        Err(msg) => {
            ctx.viol(format!("panic:{}", short(&msg)), &fen, json!({"kind": "long_line", "panic": msg}));
            0
        }
    }
}

/// C12 on boards WITH a history: `k` plies are made on one board (with a probe of the legal moves at
/// every ply, which makes and unmakes every pseudo-legal move), `j` of them are taken back, and the
/// FEN of the board is written through BOTH conversions — `Fen::from(&board)` and the owned
/// `Fen::from(board)` / `.into()` — and compared with the reference position of ply k-j. A board
/// that has been worked on must write the same text as one read from a FEN. Returns boards written.
pub fn c12_history_writes(ctx: &BoardCtx, root: &Pos, rule: u64, ks: &[usize]) -> u64 {
    let fen = root.to_fen();
    let mut written = 0u64;
    for &k in ks {
        for j in 0..=k.min(3) {
            let r = guarded(|| -> Option<(String, String, String, usize)> {
                let mut b = board_from_pos(root).ok()?;
                let mut line: Vec<Pos> = vec![root.clone()];
                let mut made: Vec<Move> = Vec::new();
                for ply in 0..k {
                    let p = line.last().unwrap().clone();
                    let legal = p.legal();
                    let cands: Vec<&Mv> = legal.iter().filter(|m| p.make(m).has_legal_move() && p.half < 4000).collect();
                    if cands.is_empty() {
                        break;
                    }
                    let rm = *cands[((ply as u64).wrapping_mul(rule).wrapping_add(rule >> 3) % cands.len() as u64) as usize];
                    if ply % 2 == 0 {
                        let _ = b.generate_legal_moves();
                    }
                    let sm = b.generate_pseudo_legal_moves().into_iter().find(|m| mkey_sub(m) == mkey_ref(&rm))?;
                    b.make(sm);
                    made.push(sm);
                    line.push(p.make(&rm));
                }
                let back = j.min(made.len());
                for _ in 0..back {
                    let mv = made.pop().unwrap();
                    b.unmake(mv);
                    line.pop();
                }
                let expected = line.last().unwrap().to_fen();
                let by_ref = Fen::from(&b).fen;
                let owned: Fen = b.into();
                Some((expected, by_ref, owned.fen, made.len()))
            });
            match r {
                Ok(Some((expected, by_ref, owned, kept))) => {
                    written += 1;
                    for (name, got) in [("Fen::from(&board)", &by_ref), ("Fen::from(board)", &owned)] {
                        if *got != expected {
                            let d = fen_field_diff(&expected, got);
                            ctx.rep.report(format!("write_after_history:{}:{}", if name.contains('&') { "by_reference" } else { "owned" }, d.join("+")), json!({"kind": "history_write", "fen": fen, "rule": rule, "plies_made": k, "plies_taken_back": j, "plies_on_the_board": kept, "conversion": name, "expected": expected, "written": got}));
                        }
                    }
                }
                Ok(None) => {}
                Err(m) => ctx.viol(format!("panic:history_write:{}", short(&m)), &fen, json!({"kind": "history_write", "rule": rule, "plies_made": k, "plies_taken_back": j, "panic": m})),
            }
        }
    }
    written
}

/// C01 over histories: the position is reached through the subject's OWN make sequence (never
/// rebuilt from FEN), the reference position is threaded alongside; at every node the legal move
/// set offered by the board must equal the reference's. Catches state that only a history can
/// produce (e.g. a castling right that survives a move it should not).
pub fn c01_history_dfs(ctx: &BoardCtx, root: &Pos, depth: usize) -> u64 {
    let fen = root.to_fen();
    let mut b = match board_from_pos(root) {
        Ok(b) => b,
        Err(e) => {
            ctx.rep.machinery(e);
            return 0;
        }
    };
    fn rec(ctx: &BoardCtx, root_fen: &str, b: &mut Bitboard, p: &Pos, depth: usize, path: &mut Vec<String>) -> u64 {
        let mut nodes = 1;
        let ref_legal = p.legal();
        let expected = sorted(ref_legal.iter().map(|m| m.uci()).collect());
        let sub = b.generate_legal_moves();
        let actual = sorted(sub.iter().map(|m| m.to_uci_string()).collect());
        if actual != expected {
            let missing: Vec<&String> = expected.iter().filter(|u| !actual.contains(u)).collect();
            let extra: Vec<&String> = actual.iter().filter(|u| !expected.contains(u)).collect();
            let what = if !extra.is_empty() { "extra" } else { "missing" };
            ctx.rep.report(format!("history_legal_set:{}", what), json!({"kind": "history", "fen": root_fen, "line": path.clone(), "reference_position": p.to_fen(), "missing": missing, "extra": extra}));
            return nodes; // the subject's state is off from here on
        }
        if depth == 0 {
            return nodes;
        }
        for rm in &ref_legal {
            let rk = mkey_ref(rm);
            if let Some(sm) = sub.iter().find(|m| mkey_sub(m) == rk) {
                b.make(*sm);
                path.push(rm.uci());
                nodes += rec(ctx, root_fen, b, &p.make(rm), depth - 1, path);
                path.pop();
                b.unmake(*sm);
            }
        }
        nodes
    }
    let mut path = Vec::new();
    match guarded(|| rec(ctx, &fen, &mut b, root, depth, &mut path)) {
        Ok(n) => n,
        Err(msg) => {
            ctx.viol(format!("panic:{}", short(&msg)), &fen, json!({"kind": "history", "panic": msg}));
            0
        }
    }
}

fn dfs_rec(ctx: &BoardCtx, root_fen: &str, b: &mut Bitboard, depth: usize, path: &mut Vec<String>, h: u64, ph: u64) -> u64 {
    let mut nodes = 1;
    if ctx.prop == Prop::C06 {
        let rh = b.calculate_zobrist_hash();
        let rph = b.calculate_zobrist_pawn_hash();
        if rh != h || rph != ph {
            ctx.rep.report(
                format!("threaded_hash:{}", if rh != h { "full" } else { "pawn" }),
                json!({"kind": "line", "fen": root_fen, "line": path.clone(), "threaded": h, "recomputed": rh, "threaded_pawn": ph, "recomputed_pawn": rph}),
            );
            return nodes;
        }
    }
    if depth == 0 {
        return nodes;
    }
    let before = snap(b);
    let moves = b.generate_pseudo_legal_moves();
    for mv in moves {
        b.make(mv);
        if b.is_valid() {
            let (x, px) = Bitboard::zobrist_xor(mv);
            path.push(mv.to_uci_string());
            nodes += dfs_rec(ctx, root_fen, b, depth - 1, path, h ^ x, ph ^ px);
            path.pop();
        }
        b.unmake(mv);
        if ctx.prop == Prop::C03 {
            let after = snap(b);
            if after != before {
                let d = before.diff(&after);
                let mut line = path.clone();
                line.push(mv.to_uci_string());
                ctx.rep.report(format!("line_unmake:{}", d.join("+")), json!({"kind": "line", "fen": root_fen, "line": line, "diff": d}));
                return nodes; // board is off; stop this subtree
            }
        }
    }
    nodes
}

// ---------------------------------------------------------------------------------------
// C05

fn c05(ctx: &BoardCtx, p: &Pos, fen: &str, b: &mut Bitboard) {
    let ref_legal = p.legal();
    let mut local = BTreeMap::new();
    count_state(&mut local, p, &ref_legal);
    for (color, cname, cobj) in [(WHITE, "white", Color::WHITE), (BLACK, "black", Color::BLACK)] {
        let expected = p.in_check(color);
        let actual = b.is_in_check(&cobj);
        if expected != actual {
            ctx.viol(format!("is_in_check:{}:expected_{}", cname, expected), fen, json!({"color": cname, "expected": expected, "actual": actual}));
        }
    }
    let exp_cur = p.in_check(p.stm);
    if b.is_current_in_check() != exp_cur {
        ctx.viol(format!("is_current_in_check:expected_{}", exp_cur), fen, json!({"expected": exp_cur}));
    }
    // positions reached by playing any pseudo-legal move
    let pseudo = b.generate_pseudo_legal_moves();
    let ref_pseudo = p.pseudo_legal();
    for &mv in &pseudo {
        let u = || mv.to_uci_string();
        let sk = mkey_sub(&mv);
        let rm = match ref_pseudo.iter().find(|m| mkey_ref(m) == sk) {
            Some(m) => m,
            None => continue,
        };
        let succ = p.make(rm);
        b.make(mv);
        let chk = [succ.in_check(WHITE), succ.in_check(BLACK)];
        let valid_expected = !chk[p.stm as usize];
        let valid_actual = b.is_valid();
        if valid_expected != valid_actual {
            ctx.viol(format!("is_valid:expected_{}:{}", valid_expected, class_of(rm)), fen, json!({"move": u(), "expected": valid_expected, "actual": valid_actual}));
        }
        if !valid_expected {
            *local.entry("pseudo_moves_leaving_king_in_check").or_insert(0) += 1;
        }
        for (color, cname, cobj) in [(WHITE, "white", Color::WHITE), (BLACK, "black", Color::BLACK)] {
            let e = chk[color as usize];
            let a = b.is_in_check(&cobj);
            if e != a {
                ctx.viol(format!("is_in_check_after_move:{}:expected_{}", cname, e), fen, json!({"move": u(), "color": cname, "expected": e, "actual": a}));
            }
        }
        b.unmake(mv);
    }
    // the board's own "has the side to move any legal move" predicate (what the SAN suffix and the
    // search's horizon ask) on the full pseudo-legal list
    {
        let any = b.is_any_move_legal(&pseudo);
        if any == ref_legal.is_empty() {
            ctx.viol(format!("is_any_move_legal:expected_{}", !ref_legal.is_empty()), fen, json!({"expected": !ref_legal.is_empty(), "actual": any, "legal_moves": ref_legal.iter().map(|m| m.uci()).collect::<Vec<_>>()}));
        }
        if !ref_legal.is_empty() && ref_legal.iter().all(|m| m.piece == PAWN && (m.from as i32 - m.to as i32).abs() == 16) {
            *local.entry("states_whose_only_legal_moves_are_double_pawn_steps").or_insert(0) += 1;
        }
        if ref_legal.is_empty() && !p.in_check(p.stm) && p.pseudo_legal().iter().any(|m| m.is_ep) {
            *local.entry("stalemates_with_a_pseudo_legal_en_passant_capture").or_insert(0) += 1;
            // ... in which the capturing pawn does not share the king's rank (the capture would open a diagonal)
            let king_row = (0..64u8).find(|&sq| p.board[sq as usize] == pc(p.stm, KING)).map(row_of);
            if p.pseudo_legal().iter().any(|m| m.is_ep && Some(row_of(m.from)) != king_row) {
                *local.entry("stalemates_with_an_en_passant_capture_that_would_open_a_diagonal").or_insert(0) += 1;
            }
        }
        if !ref_legal.is_empty() && ref_legal.iter().all(|m| m.is_ep) {
            *local.entry("states_whose_only_legal_moves_are_en_passant_captures").or_insert(0) += 1;
        }
        if !ref_legal.is_empty() && ref_legal.iter().all(|m| m.promo != 0) {
            *local.entry("states_whose_only_legal_moves_are_promotions").or_insert(0) += 1;
        }
    }
    // moveless <=> mate or stalemate
    match board_from_pos(p) {
        Ok(mut nb) => {
            let moveless = nb.generate_legal_moves().is_empty();
            if moveless != ref_legal.is_empty() {
                ctx.viol(format!("moveless:expected_{}", ref_legal.is_empty()), fen, json!({"expected": ref_legal.is_empty(), "actual": moveless}));
            }
            if ref_legal.is_empty() {
                #[cfg(inkayaku_verif)]
                {
                    let v = inkayaku_engine_core::verif::terminal_eval(&nb);
                    let is_mate_score = inkayaku_engine_core::verif::is_checkmate_value(v);
                    let mate = p.in_check(p.stm);
                    if is_mate_score != mate {
                        ctx.viol(format!("terminal_eval:{}", if mate { "mate_scored_as_draw" } else { "stalemate_scored_as_mate" }), fen, json!({"value": v, "mate": mate}));
                    }
                    *local.entry("terminal_evals").or_insert(0) += 1;
                }
            }
        }
        Err(e) => ctx.rep.machinery(e),
    }
    ctx.transitions.fetch_add(pseudo.len() as u64, std::sync::atomic::Ordering::Relaxed);
    ctx.counters.add_all(&local);
}

// ---------------------------------------------------------------------------------------
// C06

fn c06(ctx: &BoardCtx, p: &Pos, fen: &str, b: &mut Bitboard) {
    let ref_legal = p.legal();
    let mut local = BTreeMap::new();
    count_state(&mut local, p, &ref_legal);
    let h = b.calculate_zobrist_hash();
    let ph = b.calculate_zobrist_pawn_hash();
    let before_lite = lite(b);
    if ctx.collect_hashes {
        ctx.hashes.lock().unwrap().push((h, ph, p.key()));
    }
    let pseudo = b.generate_pseudo_legal_moves();
    for rm in &ref_legal {
        let u = || rm.uci();
        let rk = mkey_ref(rm);
        let sm = match pseudo.iter().find(|m| mkey_sub(m) == rk) {
            Some(m) => *m,
            None => continue,
        };
        let (x, px) = Bitboard::zobrist_xor(sm);
        // "the hash computed from scratch for the resulting position": the position the
        // subject's own make produces (that it is the right position is C02's business)
        b.make(sm);
        let sh = b.calculate_zobrist_hash();
        let sph = b.calculate_zobrist_pawn_hash();
        b.unmake(sm);
        if h ^ x != sh {
            ctx.viol(format!("incremental_hash:{}", class_of(rm)), fen, json!({"move": u(), "incremental": h ^ x, "recomputed": sh}));
        }
        if ph ^ px != sph {
            ctx.viol(format!("incremental_pawn_hash:{}", class_of(rm)), fen, json!({"move": u(), "incremental": ph ^ px, "recomputed": sph}));
        }
    }
    if lite(b) != before_lite {
        // C03's business; nothing more can be judged on this board
        return;
    }
    // the delta of a move is a function of the move alone, whatever was asked before: right before
    // each move its closest neighbour is asked — the same piece kind moving between the same squares
    // with the colours of all pieces swapped (squares kept, side to move swapped), and the other
    // moves of this position (a quarter of the states)
    if h % 4 == 0 {
        let mut t = p.clone();
        for sq in 0..64usize {
            let x = t.board[sq];
            if x != EMPTY {
                t.board[sq] = pc(1 - pc_color(x), pc_kind(x));
            }
        }
        t.stm = 1 - p.stm;
        t.castle = 0;
        t.ep = NO_EP;
        let twin_moves: Vec<Move> = match Bitboard::from_fen_string(&t.to_fen()) {
            Ok(tb) => tb.generate_pseudo_legal_moves(),
            Err(_) => Vec::new(),
        };
        for rm in &ref_legal {
            let rk = mkey_ref(rm);
            let sm = match pseudo.iter().find(|m| mkey_sub(m) == rk) {
                Some(m) => *m,
                None => continue,
            };
            let alone = Bitboard::zobrist_xor(sm);
            let mut neighbours: Vec<Move> = twin_moves.iter().filter(|m| mkey_sub(m) == rk && m.get_piece_moved() == sm.get_piece_moved()).copied().collect();
            if let Some(other) = pseudo.iter().find(|m| m.bits != sm.bits) {
                neighbours.push(*other);
            }
            let unrelated = pseudo.iter().find(|m| m.get_source_square() != sm.get_source_square()).copied();
            for nb in neighbours {
                // unrelated move, neighbour, the move itself: whatever a previous answer is
                // remembered under, the neighbour's is the freshest one when the move is asked
                if let Some(u) = unrelated {
                    let _ = Bitboard::zobrist_xor(u);
                }
                let _ = Bitboard::zobrist_xor(nb);
                let again = Bitboard::zobrist_xor(sm);
                *local.entry("deltas_asked_again_right_after_a_neighbouring_move").or_insert(0) += 1;
                if again != alone {
                    ctx.viol(format!("hash_delta_depends_on_the_previous_call:{}", class_of(rm)), fen, json!({"move": rm.uci(), "delta": [alone.0, alone.1], "delta_after_asking_for_a_neighbouring_move_first": [again.0, again.1], "neighbour_side_to_move": nb.get_side_to_move(), "neighbour": nb.to_uci_string()}));
                    break;
                }
            }
        }
    }
    // clocks must not matter
    for (dh, df) in [(120u64, 7u64)] {
        let mut q = p.clone();
        q.half += dh;
        q.full += df;
        if let Ok(qb) = board_from_pos(&q) {
            if qb.calculate_zobrist_hash() != h || qb.calculate_zobrist_pawn_hash() != ph {
                ctx.viol("hash_depends_on_clocks".into(), fen, json!({"other": q.to_fen()}));
            }
        }
    }
    ctx.transitions.fetch_add(ref_legal.len() as u64, std::sync::atomic::Ordering::Relaxed);
    ctx.counters.add_all(&local);
}

/// single-component variants of `p` must all hash differently from `p` (and pairwise)
pub fn c06_variants(ctx: &BoardCtx, p: &Pos) -> u64 {
    let fen = p.to_fen();
    let base = match board_from_pos(p) {
        Ok(b) => b.calculate_zobrist_hash(),
        Err(_) => return 0,
    };
    let mut n = 0;
    let mut check = |q: Pos, what: &str| {
        n += 1;
        let qf = q.to_fen();
        match guarded(|| Bitboard::from_fen_string(&qf)) {
            Ok(Ok(qb)) => {
                if qb.calculate_zobrist_hash() == base {
                    ctx.viol(format!("variant_same_hash:{}", what), &fen, json!({"kind": "variant", "variant": qf, "component": what}));
                }
            }
            _ => {} // variant not parseable: not this property's business
        }
    };
    {
        let mut q = p.clone();
        q.stm = 1 - q.stm;
        check(q, "side");
    }
    if p.ep != NO_EP {
        let mut q = p.clone();
        q.ep = NO_EP;
        check(q, "ep_cleared");
    }
    for bit in [CASTLE_WK, CASTLE_WQ, CASTLE_BK, CASTLE_BQ] {
        let mut q = p.clone();
        q.castle ^= bit;
        check(q, "right");
    }
    let ep_row = if p.stm == WHITE { 2 } else { 5 };
    for f in 0..8 {
        let sq = sq_at(f, ep_row).unwrap();
        if p.ep != sq {
            let mut q = p.clone();
            q.ep = sq;
            check(q, "ep_file");
        }
    }
    for s in 0..64usize {
        for v in 0..=12u8 {
            if p.board[s] != v {
                let mut q = p.clone();
                q.board[s] = v;
                check(q, "square_content");
            }
        }
    }
    n
}

/// key material: every (piece, square), right, e.p. file and side key must be non-zero,
/// pairwise distinct, and no two distinct pairs may xor to the same value.
pub fn c06_key_material(ctx: &BoardCtx) -> u64 {
    let empty = Pos::empty();
    let hash_of = |q: &Pos| -> Option<u64> {
        let f = q.to_fen();
        match guarded(|| Bitboard::from_fen_string(&f)) {
            Ok(Ok(b)) => Some(b.calculate_zobrist_hash()),
            _ => None,
        }
    };
    let h0 = match hash_of(&empty) {
        Some(h) => h,
        None => {
            ctx.rep.machinery("cannot hash the empty board");
            return 0;
        }
    };
    let mut keys: Vec<(u64, String)> = Vec::new();
    for s in 0..64usize {
        for v in 1..=12u8 {
            let mut q = empty.clone();
            q.board[s] = v;
            if let Some(h) = hash_of(&q) {
                keys.push((h ^ h0, format!("{}@{}", piece_char(v), sq_name(s as u8))));
            }
        }
    }
    for (bit, name) in [(CASTLE_WK, "K"), (CASTLE_WQ, "Q"), (CASTLE_BK, "k"), (CASTLE_BQ, "q")] {
        let mut q = empty.clone();
        q.castle = bit;
        if let Some(h) = hash_of(&q) {
            keys.push((h ^ h0, format!("right:{}", name)));
        }
    }
    for f in 0..8 {
        let mut q = empty.clone();
        q.ep = sq_at(f, 2).unwrap();
        if let Some(h) = hash_of(&q) {
            keys.push((h ^ h0, format!("ep:{}", (b'a' + f as u8) as char)));
        }
    }
    {
        let mut q = empty.clone();
        q.stm = BLACK;
        if let Some(h) = hash_of(&q) {
            keys.push((h ^ h0, "side".to_string()));
        }
    }
    for (k, name) in &keys {
        if *k == 0 {
            ctx.rep.report(format!("key_zero:{}", name.split('@').next().unwrap_or("")), json!({"kind": "keys", "component": name}));
        }
    }
    let mut sorted_keys = keys.clone();
    sorted_keys.sort();
    for w in sorted_keys.windows(2) {
        if w[0].0 == w[1].0 {
            ctx.rep.report("key_equal".to_string(), json!({"kind": "keys", "a": w[0].1, "b": w[1].1}));
        }
    }
    // pair xors
    let n = keys.len();
    let mut pairs: Vec<(u64, u32, u32)> = Vec::with_capacity(n * n / 2);
    for i in 0..n {
        for j in (i + 1)..n {
            pairs.push((keys[i].0 ^ keys[j].0, i as u32, j as u32));
        }
    }
    pairs.sort();
    let mut reported = 0;
    for w in pairs.windows(2) {
        if w[0].0 == w[1].0 && reported < 5 {
            reported += 1;
            ctx.rep.report(
                "pair_xor_equal".to_string(),
                json!({"kind": "keys", "a": [keys[w[0].1 as usize].1, keys[w[0].2 as usize].1], "b": [keys[w[1].1 as usize].1, keys[w[1].2 as usize].1]}),
            );
        }
    }
    // the e.p. key must depend on the file only
    for f in 0..8 {
        let mut q = empty.clone();
        q.ep = sq_at(f, 2).unwrap();
        let mut q2 = empty.clone();
        q2.stm = BLACK;
        q2.ep = sq_at(f, 5).unwrap();
        let mut q3 = empty.clone();
        q3.stm = BLACK;
        if let (Some(a), Some(b), Some(c)) = (hash_of(&q), hash_of(&q2), hash_of(&q3)) {
            if a ^ h0 != b ^ c {
                ctx.rep.report("ep_key_depends_on_rank".to_string(), json!({"kind": "keys", "file": f}));
            }
        }
    }
    (keys.len() + pairs.len()) as u64
}

/// after the exploration: hash must be a function of the key and injective on the explored set
pub fn c06_finish(ctx: &BoardCtx) -> (u64, u64) {
    let v = std::mem::take(&mut *ctx.hashes.lock().unwrap());
    let total = v.len() as u64;
    const NB: usize = 64;
    // (a) function of the key: bucket by a cheap digest of the key so equal keys meet
    let mut buckets: Vec<Vec<(u64, u64, Key)>> = (0..NB).map(|_| Vec::new()).collect();
    for e in &v {
        let mut d: u64 = 1469598103934665603;
        for b in e.2 .0.iter() {
            d = (d ^ *b as u64).wrapping_mul(1099511628211);
        }
        buckets[(d >> 20) as usize % NB].push(*e);
    }
    drop(v);
    let uniqs: Vec<Vec<(u64, u64, Key)>> = par_map(&buckets, |bucket| {
        let mut v = bucket.clone();
        v.sort_unstable_by(|a, b| a.2.cmp(&b.2).then(a.0.cmp(&b.0)));
        let mut uniq = Vec::new();
        let mut i = 0;
        while i < v.len() {
            let mut j = i;
            while j < v.len() && v[j].2 == v[i].2 {
                if v[j].0 != v[i].0 || v[j].1 != v[i].1 {
                    ctx.rep.report("hash_not_function_of_key".to_string(), json!({"kind": "hashset", "key": format!("{:?}", v[i].2 .0)}));
                }
                j += 1;
            }
            uniq.push(v[i]);
            i = j;
        }
        uniq
    });
    drop(buckets);
    let distinct_keys: u64 = uniqs.iter().map(|u| u.len() as u64).sum();
    // (b) injective: bucket by hash so equal hashes meet
    let mut hb: Vec<Vec<(u64, Key)>> = (0..NB).map(|_| Vec::new()).collect();
    for u in &uniqs {
        for e in u {
            hb[(e.0 >> 13) as usize % NB].push((e.0, e.2));
        }
    }
    drop(uniqs);
    par_map(&hb, |bucket| {
        let mut v = bucket.clone();
        v.sort_unstable_by(|a, b| a.0.cmp(&b.0));
        let mut reported = 0;
        for w in v.windows(2) {
            if w[0].0 == w[1].0 && reported < 3 {
                reported += 1;
                ctx.rep.report("hash_collision_between_different_positions".to_string(), json!({"kind": "hashset", "hash": w[0].0, "a": format!("{:?}", w[0].1 .0), "b": format!("{:?}", w[1].1 .0)}));
            }
        }
    });
    (total, distinct_keys)
}

// ---------------------------------------------------------------------------------------
// C12 (valid FENs: decode, write back, 4-field form)

pub fn decode_matches(b: &Bitboard, p: &Pos) -> Vec<String> {
    let mut bad = Vec::new();
    for s in 0..64usize {
        let sq = Square::from_index(s).unwrap();
        let got = guarded(|| b.get_colored_piece(sq));
        let got_char = match got {
            Ok(Some(cp)) => Some(cp.fen),
            Ok(None) => None,
            Err(_) => Some('!'),
        };
        let exp_char = if p.board[s] == EMPTY { None } else { Some(piece_char(p.board[s])) };
        if got_char != exp_char {
            bad.push(format!("square {}: expected {:?} got {:?}", sq_name(s as u8), exp_char, got_char));
            if bad.len() > 4 {
                break;
            }
        }
    }
    if b.turn != p.stm as u32 {
        bad.push("side".into());
    }
    let rights = (b.white.king_side_castle as u8) | ((b.white.queen_side_castle as u8) << 1) | ((b.black.king_side_castle as u8) << 2) | ((b.black.queen_side_castle as u8) << 3);
    if rights != p.castle {
        bad.push(format!("rights expected {} got {}", p.castle, rights));
    }
    let ep = if b.en_passant_square_shift == NO_SQUARE { NO_EP } else { b.en_passant_square_shift as u8 };
    if ep != p.ep {
        bad.push(format!("ep expected {} got {}", p.ep, ep));
    }
    if b.halfmove_clock as u64 != p.half {
        bad.push(format!("halfmove expected {} got {}", p.half, b.halfmove_clock));
    }
    if b.fullmove_clock as u64 != p.full {
        bad.push(format!("fullmove expected {} got {}", p.full, b.fullmove_clock));
    }
    bad
}

fn c12(ctx: &BoardCtx, p: &Pos, fen: &str, b: &Bitboard) {
    let mut local: BTreeMap<&'static str, u64> = BTreeMap::new();
    *local.entry("states").or_insert(0) += 1;
    if p.ep != NO_EP {
        *local.entry("ep_states").or_insert(0) += 1;
    }
    let rights_name: &'static str = RIGHTS_NAMES[p.castle as usize];
    *local.entry(rights_name).or_insert(0) += 1;
    if !Fen::is_valid(fen) {
        ctx.viol("is_valid_disagrees_with_from_str".into(), fen, json!({}));
    }
    let bad = decode_matches(b, p);
    if !bad.is_empty() {
        ctx.viol(format!("decode:{}", bad[0].split(' ').next().unwrap_or("")), fen, json!({"bad": bad}));
    }
    let written_obj = Fen::from(b);
    let written = written_obj.fen.clone();
    if written != fen {
        let d = fen_field_diff(fen, &written);
        ctx.viol(format!("write:{}", d.join("+")), fen, json!({"written": written}));
    } else {
        // the written value used as an object, not only as text: its fields, and reading it back
        let parts: Vec<&str> = fen.split(' ').collect();
        let got = [written_obj.get_piece_placement(), written_obj.get_active_color(), written_obj.get_castling_availability(), written_obj.get_en_passant_target_square(), written_obj.get_halfmove_clock(), written_obj.get_fullmove_clock()];
        let names = ["placement", "side", "rights", "ep", "halfmove", "fullmove"];
        let bad_fields: Vec<&str> = (0..6).filter(|&i| got[i] != parts[i]).map(|i| names[i]).collect();
        if !bad_fields.is_empty() {
            ctx.viol(format!("written_fen_object_fields:{}", bad_fields.join("+")), fen, json!({"fields_of_the_written_object": got, "text": written}));
        }
        match guarded(|| Bitboard::from(&written_obj)) {
            Ok(b2) => {
                let bad = decode_matches(&b2, p);
                if !bad.is_empty() {
                    ctx.viol(format!("read_back_of_written_fen_object:{}", bad[0].split(' ').next().unwrap_or("")), fen, json!({"bad": bad}));
                }
            }
            Err(m) => ctx.viol(format!("panic:read_back_of_written_fen_object:{}", short(&m)), fen, json!({"panic": m})),
        }
    }
    // the owned conversion (Fen::from(board) / .into()) against the by-reference one
    if let Ok(Ok(b_owned)) = guarded(|| Bitboard::from_fen_string(fen)) {
        match guarded(|| -> Fen { b_owned.into() }) {
            Ok(f) => {
                if f.fen != written {
                    ctx.viol("entry_points:owned_conversion_differs".into(), fen, json!({"by_reference": written, "owned": f.fen}));
                }
            }
            Err(m) => ctx.viol(format!("panic:owned_conversion:{}", short(&m)), fen, json!({"panic": m})),
        }
    }
    // 4-field form: clocks default to 0 and 1
    let fen4 = p.to_fen4();
    match guarded(|| Bitboard::from_fen_string(&fen4)) {
        Ok(Ok(b4)) => {
            let mut q = p.clone();
            q.half = 0;
            q.full = 1;
            let bad = decode_matches(&b4, &q);
            if !bad.is_empty() {
                ctx.viol(format!("decode4:{}", bad[0].split(' ').next().unwrap_or("")), &fen4, json!({"bad": bad}));
            }
            let w4 = Fen::from(&b4).fen;
            if w4 != q.to_fen() {
                ctx.viol("write4".into(), &fen4, json!({"written": w4}));
            }
        }
        Ok(Err(e)) => ctx.viol("reject_valid_4_field_fen".into(), &fen4, json!({"error": format!("{:?}", e)})),
        Err(m) => ctx.viol(format!("panic:{}", short(&m)), &fen4, json!({"panic": m})),
    }
    // Fen accessor fields
    if let Ok(f) = Fen::from_str(fen) {
        let parts: Vec<&str> = fen.split(' ').collect();
        if f.get_piece_placement() != parts[0] || f.get_active_color() != parts[1] || f.get_castling_availability() != parts[2] || f.get_en_passant_target_square() != parts[3] || f.get_halfmove_clock() != parts[4] || f.get_fullmove_clock() != parts[5] {
            ctx.viol("fen_field_ranges".into(), fen, json!({}));
        }
    }
    ctx.transitions.fetch_add(3, std::sync::atomic::Ordering::Relaxed);
    ctx.counters.add_all(&local);
}

const RIGHTS_NAMES: [&str; 16] = [
    "rights_-", "rights_K", "rights_Q", "rights_KQ", "rights_k", "rights_Kk", "rights_Qk", "rights_KQk", "rights_q", "rights_Kq", "rights_Qq", "rights_KQq", "rights_kq", "rights_Kkq", "rights_Qkq", "rights_KQkq",
];

// ---------------------------------------------------------------------------------------
// C14 (writer + round trip)

fn strip_suffix(s: &str) -> &str {
    s.trim_end_matches(|c| c == '+' || c == '#')
}

fn c14(ctx: &BoardCtx, p: &Pos, fen: &str, b: &mut Bitboard) {
    let ref_legal = p.legal();
    let mut local = BTreeMap::new();
    count_state(&mut local, p, &ref_legal);
    let before = snap(b);
    let c14_pseudo = b.generate_pseudo_legal_moves();
    for rm in &ref_legal {
        let u = rm.uci();
        let expected = san(p, rm);
        if expected.ends_with('#') {
            *local.entry("mating_moves").or_insert(0) += 1;
        }
        {
            let after = p.make(rm);
            if after.is_stalemate() {
                *local.entry("stalemating_moves").or_insert(0) += 1;
            }
            if expected.ends_with('+') {
                let replies = after.legal();
                if !replies.is_empty() && replies.iter().all(|m| m.is_ep) {
                    *local.entry("checks_answered_only_by_en_passant").or_insert(0) += 1;
                }
            }
        }
        let body = strip_suffix(&expected);
        if rm.piece != PAWN && !rm.is_castle {
            let dis = body.len() - 3 - rm.is_capture() as usize;
            match dis {
                1 => {
                    if body.as_bytes()[1].is_ascii_digit() {
                        *local.entry("disambiguation_by_rank").or_insert(0) += 1
                    } else {
                        *local.entry("disambiguation_by_file").or_insert(0) += 1
                    }
                }
                2 => *local.entry("disambiguation_by_both").or_insert(0) += 1,
                _ => {}
            }
        }
        // the answer must not depend on what this thread was asked before: for a quarter of the
        // moves a request that is REJECTED (a move that does not exist there) is made first on another
        // board, which has like pieces able to reach many squares
        if rm.to % 4 == 1 {
            thread_local! {
                static OTHER: std::cell::RefCell<Option<Bitboard>> = std::cell::RefCell::new(None);
            }
            OTHER.with(|o| {
                let mut o = o.borrow_mut();
                if o.is_none() {
                    *o = Bitboard::from_fen_string("4k3/8/2n3n1/8/1N1QQ1N1/8/2R2R2/4K3 w - - 0 1").ok();
                }
                if let Some(ob) = o.as_mut() {
                    let _ = ob.uci_to_pgn("a1a2");
                }
            });
        }
        match b.uci_to_pgn(&u) {
            Ok(actual) => {
                if actual != expected {
                    let sig = if strip_suffix(&actual) == body {
                        format!("san_suffix:expected'{}'got'{}'", &expected[body.len()..], &actual[strip_suffix(&actual).len()..])
                    } else if rm.piece != PAWN && !rm.is_castle && actual.chars().next() == expected.chars().next() && strip_suffix(&actual).ends_with(&body[body.len() - 2..]) {
                        format!("san_disambiguation:{}", kind_letter_lower(rm.piece).to_ascii_uppercase())
                    } else {
                        format!("san_text:{}", class_of(rm))
                    };
                    ctx.viol(sig, fen, json!({"move": u, "expected": expected, "actual": actual}));
                }
            }
            Err(e) => ctx.viol("uci_to_pgn_rejects_legal_move".into(), fen, json!({"move": u, "error": format!("{:?}", e)})),
        }
        // the same move written with blanks / line ends around it: the request function trims its
        // argument, so such a text either is refused or names the same move — then the answer is the
        // same text (every castling move, and an eighth of the others)
        if rm.is_castle || (rm.from as u32 * 7 + rm.to as u32) % 8 == 0 {
            for padded in [format!(" {}", u), format!("{}\n", u), format!("\t{}\r\n", u)] {
                match b.uci_to_pgn(&padded) {
                    Ok(actual) if actual != expected => ctx.viol(format!("entry_points:padded_request_differs:{}", class_of(rm)), fen, json!({"move": u, "request": padded, "expected": expected, "actual": actual})),
                    _ => {}
                }
            }
        }
        // the other public way to the same text: Move::to_pgn_string (a quarter of the moves)
        if rm.from % 4 == 0 {
            let rk = mkey_ref(rm);
            if let Some(sm) = c14_pseudo.iter().find(|m| mkey_sub(m) == rk) {
                match sm.to_pgn_string(b) {
                    Ok(actual) if actual == expected => {}
                    Ok(actual) => ctx.viol("entry_points:to_pgn_string_differs".into(), fen, json!({"move": u, "expected": expected, "actual": actual})),
                    Err(e) => ctx.viol("entry_points:to_pgn_string_rejects_legal_move".into(), fen, json!({"move": u, "error": format!("{:?}", e)})),
                }
            }
        }
        if snap(b) != before {
            // C13's business
            match board_from_pos(p) {
                Ok(nb) => *b = nb,
                Err(_) => return,
            }
        }
        // parse the standard text back
        match b.pgn_to_bb(&expected) {
            Ok(mv) => {
                if mv.to_uci_string() != u {
                    ctx.viol(format!("parse_back_wrong_move:{}", class_of(rm)), fen, json!({"san": expected, "expected": u, "actual": mv.to_uci_string()}));
                }
            }
            Err(_) => {
                ctx.viol(format!("parse_back_rejected:{}", class_of(rm)), fen, json!({"san": expected, "expected": u}));
            }
        }
        if snap(b) != before {
            match board_from_pos(p) {
                Ok(nb) => *b = nb,
                Err(_) => return,
            }
        }
    }
    ctx.transitions.fetch_add(ref_legal.len() as u64, std::sync::atomic::Ordering::Relaxed);
    ctx.counters.add_all(&local);
}

// ---------------------------------------------------------------------------------------
// drivers

pub struct RunStats {
    pub states: u64,
    pub transitions: u64,
    pub families: Vec<Value>,
}

pub fn hash_histogram(_m: &HashMap<u64, u64>) {}
