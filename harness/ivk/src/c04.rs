//! C04 — precomputed attack tables equal ray/step attacks (finite space, enumerated completely).

use crate::common::*;
use inkayaku_board::Bitboard;
use refchess::*;
use serde_json::json;
use std::sync::atomic::{AtomicU64, Ordering};
use std::time::Instant;

const ROOK_D: [(i8, i8); 4] = [(0, 1), (1, 0), (0, -1), (-1, 0)];
const BISHOP_D: [(i8, i8); 4] = [(1, 1), (1, -1), (-1, -1), (-1, 1)];

fn dirs(rook: bool) -> &'static [(i8, i8); 4] {
    if rook {
        &ROOK_D
    } else {
        &BISHOP_D
    }
}

/// squares reached by sliding until the first blocker, blocker included
pub fn ref_attacks(rook: bool, sq: u8, occ: u64) -> u64 {
    let mut out = 0u64;
    for &(df, dr) in dirs(rook) {
        let (mut f, mut r) = (file_of(sq) + df, row_of(sq) + dr);
        while let Some(s) = sq_at(f, r) {
            out |= 1u64 << s;
            if occ & (1u64 << s) != 0 {
                break;
            }
            f += df;
            r += dr;
        }
    }
    out
}

/// all squares on the rays (edges included)
fn full_rays(rook: bool, sq: u8) -> u64 {
    ref_attacks(rook, sq, 0)
}

/// relevant blockers: ray squares that have a further ray square behind them
fn relevant_mask(rook: bool, sq: u8) -> u64 {
    let mut out = 0u64;
    for &(df, dr) in dirs(rook) {
        let (mut f, mut r) = (file_of(sq) + df, row_of(sq) + dr);
        while let Some(s) = sq_at(f, r) {
            if sq_at(f + df, r + dr).is_some() {
                out |= 1u64 << s;
            }
            f += df;
            r += dr;
        }
    }
    out
}

fn ref_leaper(which: u32, sq: u8) -> u64 {
    let steps: &[(i8, i8)] = match which {
        0 => &[(0, 1), (1, 1), (1, 0), (1, -1), (0, -1), (-1, -1), (-1, 0), (-1, 1)],
        1 => &[(1, 2), (2, 1), (2, -1), (1, -2), (-1, -2), (-2, -1), (-2, 1), (-1, 2)],
        2 => &[(-1, -1), (1, -1)], // white pawn attacks towards row 0
        _ => &[(-1, 1), (1, 1)],
    };
    let mut out = 0;
    for &(df, dr) in steps {
        if let Some(s) = sq_at(file_of(sq) + df, row_of(sq) + dr) {
            out |= 1u64 << s;
        }
    }
    out
}

#[cfg(inkayaku_verif)]
pub fn run(tier: Tier) -> i32 {
    use inkayaku_board::verif::{magic, nonmagic};
    let started = Instant::now();
    let rep = Reporter::new("C04");
    let lookups = AtomicU64::new(0);
    let configs = AtomicU64::new(0);
    let relevant_configs = AtomicU64::new(0);
    let boards = AtomicU64::new(0);

    // one work item per (piece kind, square)
    let items: Vec<(bool, u8)> = [true, false].iter().flat_map(|&rk| (0..64u8).map(move |s| (rk, s))).collect();
    par_map(&items, |&(rook, sq)| {
        let name = if rook { "rook" } else { "bishop" };
        let rays = full_rays(rook, sq);
        let off = !rays & !(1u64 << sq);
        let tlen = magic::table_len(rook, sq as u32);
        let mut local_lookups = 0u64;
        let mut local_cfg = 0u64;
        let check = |occ: u64, what: &str| -> bool {
            let idx = magic::index(rook, sq as u32, occ);
            if idx >= tlen {
                rep.report(format!("index_out_of_range:{}", name), json!({"kind": "lookup", "piece": name, "square": sq_name(sq), "occupancy": occ, "index": idx, "table_len": tlen, "variant": what}));
                return false;
            }
            // the table the move generator reads (whatever board.rs's imports are bound to) ...
            let got = inkayaku_board::verif::in_use::slider(rook, sq as u32, occ);
            let want = ref_attacks(rook, sq, occ);
            // ... and the table of constants in magic.rs, should the two ever be different objects
            let got_const = magic::lookup(rook, sq as u32, occ);
            if got == want && got_const != want {
                rep.report(format!("wrong_attack_set_in_constant_table:{}:{}", name, what), json!({"kind": "lookup", "piece": name, "square": sq_name(sq), "occupancy": occ, "expected": want, "actual": got_const, "variant": what}));
                return false;
            }
            if got != want {
                rep.report(format!("wrong_attack_set:{}:{}", name, what), json!({"kind": "lookup", "piece": name, "square": sq_name(sq), "occupancy": occ, "expected": want, "actual": got, "variant": what}));
                return false;
            }
            true
        };
        // Carry-Rippler over all subsets of the full ray set (edges included)
        let mut sub = 0u64;
        loop {
            local_cfg += 1;
            let mut ok = check(sub, "subset_of_rays");
            local_lookups += 1;
            if ok {
                ok = check(sub | off | (1u64 << sq), "all_off_ray_bits_set");
                local_lookups += 1;
            }
            if ok {
                let mut o = off;
                while o != 0 {
                    let b = o & o.wrapping_neg();
                    o &= o - 1;
                    local_lookups += 1;
                    if !check(sub | b, "single_off_ray_bit") {
                        break;
                    }
                }
            }
            sub = sub.wrapping_sub(rays) & rays;
            if sub == 0 {
                break;
            }
        }
        // the classical reduced space (subsets of the relevant-blocker mask) is a subset of the
        // above; counted separately so the evidence shows the 102 400 + 5 248 figure
        let rel = relevant_mask(rook, sq);
        relevant_configs.fetch_add(1u64 << rel.count_ones(), Ordering::Relaxed);
        // hook-free binding to real use: a lone white piece, black knights on the blockers
        let mut sub = 0u64;
        let mut local_boards = 0u64;
        loop {
            for piece in [if rook { ROOK } else { BISHOP }, QUEEN] {
                let mut p = Pos::empty();
                p.board[sq as usize] = pc(WHITE, piece);
                let mut o = sub;
                while o != 0 {
                    let s = o.trailing_zeros();
                    o &= o - 1;
                    p.board[s as usize] = pc(BLACK, KNIGHT);
                }
                let fen = p.to_fen();
                set_current_case(&fen);
                local_boards += 1;
                match guarded(|| {
                    let b = Bitboard::from_fen_string(&fen).map_err(|e| format!("{:?}", e))?;
                    let mut t = 0u64;
                    for m in b.generate_pseudo_legal_moves() {
                        if m.get_source_square() == sq as u32 {
                            t |= 1u64 << m.get_target_square();
                        }
                    }
                    Ok::<u64, String>(t)
                }) {
                    Ok(Ok(targets)) => {
                        let mut want = ref_attacks(rook, sq, sub);
                        if piece == QUEEN {
                            want |= ref_attacks(!rook, sq, sub);
                        }
                        if targets != want {
                            rep.report(format!("movegen_targets_differ:{}", if piece == QUEEN { "queen" } else { name }), json!({"kind": "board", "fen": fen, "square": sq_name(sq), "expected": want, "actual": targets}));
                        }
                    }
                    Ok(Err(e)) => rep.machinery(format!("FEN rejected {}: {}", fen, e)),
                    Err(m) => rep.report(format!("panic:{}", crate::board_checks::short(&m)), json!({"kind": "board", "fen": fen, "panic": m})),
                }
            }
            sub = sub.wrapping_sub(rel) & rel;
            if sub == 0 {
                break;
            }
        }
        lookups.fetch_add(local_lookups, Ordering::Relaxed);
        configs.fetch_add(local_cfg, Ordering::Relaxed);
        boards.fetch_add(local_boards, Ordering::Relaxed);
    });

    // leapers
    let names = ["king", "knight", "white_pawn", "black_pawn"];
    let mut leaper_entries = 0u64;
    for which in 0..4u32 {
        for sq in 0..64u8 {
            leaper_entries += 1;
            let got = inkayaku_board::verif::in_use::leaper(which, sq as u32);
            let want = ref_leaper(which, sq);
            if got == want && nonmagic::leaper(which, sq as u32) != want {
                rep.report(format!("leaper_entry_in_constant_table:{}", names[which as usize]), json!({"kind": "leaper", "table": names[which as usize], "square": sq_name(sq), "expected": want, "actual": nonmagic::leaper(which, sq as u32)}));
            }
            if got != want {
                rep.report(format!("leaper_entry:{}", names[which as usize]), json!({"kind": "leaper", "table": names[which as usize], "square": sq_name(sq), "expected": want, "actual": got}));
            }
        }
    }
    let _ = tier;
    let mut cov = Coverage::new();
    cov.states = configs.load(Ordering::Relaxed) + leaper_entries;
    cov.transitions = lookups.load(Ordering::Relaxed) + leaper_entries + boards.load(Ordering::Relaxed);
    cov.traces_validated = cov.transitions;
    cov.exhaustive = true;
    cov.set("ray_subset_configurations", json!(configs.load(Ordering::Relaxed)));
    cov.set("relevant_mask_configurations", json!(relevant_configs.load(Ordering::Relaxed)));
    cov.set("table_lookups", json!(lookups.load(Ordering::Relaxed)));
    cov.set("leaper_entries", json!(leaper_entries));
    cov.set("boards_through_move_generation", json!(boards.load(Ordering::Relaxed)));
    cov.set("explanation", json!("for each of 64 squares x {rook, bishop}: every subset of the full ray set (edge squares included), each also with all off-ray bits set and with each single off-ray bit set; index < table length checked before every unchecked lookup; all 4x64 leaper entries; every subset of the relevant-blocker mask additionally driven through FEN + generate_pseudo_legal_moves with a lone rook/bishop/queen"));
    cov.samples = vec![json!({"piece": "rook", "square": "d4", "occupancy_subset_of_rays": "0x0008000000080000", "oracle": "ray walk until first blocker, blocker included"}), json!({"leaper": "knight", "square": "a1", "expected": ref_leaper(1, 56)})];
    cov.assumptions = vec!["a lookup depends on the occupancy only through the bits on the square's rays: tested (all-off-ray and single-off-ray variants), not assumed".into()];
    finish(&rep, tier, cov, started)
}

#[cfg(not(inkayaku_verif))]
pub fn run(_tier: Tier) -> i32 {
    eprintln!("C04 needs the hook build (--cfg inkayaku_verif)");
    2
}

pub fn replay(case: &serde_json::Value) -> i32 {
    // the space is small: a replay simply re-runs the complete enumeration
    let _ = case;
    run(Tier::Quick)
}
