//! C04 — precomputed attack tables equal ray/step attacks (finite space, enumerated completely).

use crate::common::*;
use inkayaku_board::Bitboard;
use refchess::*;
use serde_json::json;
use std::sync::atomic::{AtomicU64, Ordering};
use std::time::Instant;

const ROOK_D: [(i8, i8); 4] = [(0, 1), (1, 0), (0, -1), (-1, 0)];
const BISHOP_D: [(i8, i8); 4] = [(1, 1), (1, -1), (-1, -1), (-1, 1)];

fn dirs(rook: bool) -> &'static [(i8, i8); 4] {
    if rook {
        &ROOK_D
    } else {
        &BISHOP_D
    }
}

/// squares reached by sliding until the first blocker, blocker included
pub fn ref_attacks(rook: bool, sq: u8, occ: u64) -> u64 {
    let mut out = 0u64;
    for &(df, dr) in dirs(rook) {
        let (mut f, mut r) = (file_of(sq) + df, row_of(sq) + dr);
        while let Some(s) = sq_at(f, r) {
            out |= 1u64 << s;
            if occ & (1u64 << s) != 0 {
                break;
            }
            f += df;
            r += dr;
        }
    }
    out
}

/// all squares on the rays (edges included)
fn full_rays(rook: bool, sq: u8) -> u64 {
    ref_attacks(rook, sq, 0)
}

/// relevant blockers: ray squares that have a further ray square behind them
fn relevant_mask(rook: bool, sq: u8) -> u64 {
    let mut out = 0u64;
    for &(df, dr) in dirs(rook) {
        let (mut f, mut r) = (file_of(sq) + df, row_of(sq) + dr);
        while let Some(s) = sq_at(f, r) {
            if sq_at(f + df, r + dr).is_some() {
                out |= 1u64 << s;
            }
            f += df;
            r += dr;
        }
    }
    out
}

fn ref_leaper(which: u32, sq: u8) -> u64 {
    let steps: &[(i8, i8)] = match which {
        0 => &[(0, 1), (1, 1), (1, 0), (1, -1), (0, -1), (-1, -1), (-1, 0), (-1, 1)],
        1 => &[(1, 2), (2, 1), (2, -1), (1, -2), (-1, -2), (-2, -1), (-2, 1), (-1, 2)],
        2 => &[(-1, -1), (1, -1)], // white pawn attacks towards row 0
        _ => &[(-1, 1), (1, 1)],
    };
    let mut out = 0;
    for &(df, dr) in steps {
        if let Some(s) = sq_at(file_of(sq) + df, row_of(sq) + dr) {
            out |= 1u64 << s;
        }
    }
    out
}

#[cfg(inkayaku_verif)]
pub fn run(tier: Tier) -> i32 {
    use inkayaku_board::verif::{magic, nonmagic};
    let started = Instant::now();
    let rep = Reporter::new("C04");
    let lookups = AtomicU64::new(0);
    let configs = AtomicU64::new(0);
    let relevant_configs = AtomicU64::new(0);
    let boards = AtomicU64::new(0);

    // What is touched FIRST in a process is a dimension of its own (tables may be filled in on first
    // use): this process starts with the operation named by IVK_C04_FIRST (children of the main run,
    // see below); without it, with the enumeration itself.
    let first = std::env::var("IVK_C04_FIRST").unwrap_or_default();
    match first.as_str() {
        "bishop_a8" => {
            let _ = inkayaku_board::verif::in_use::slider(false, 0, 0);
        }
        "bishop_h1" => {
            let _ = inkayaku_board::verif::in_use::slider(false, 63, u64::MAX);
        }
        "rook_e4" => {
            let _ = inkayaku_board::verif::in_use::slider(true, 36, 0);
        }
        "knight_then_bishop" => {
            let _ = inkayaku_board::verif::in_use::leaper(1, 10);
            let _ = inkayaku_board::verif::in_use::slider(false, 27, 1 << 9);
        }
        "movegen_bishop_only" => {
            if let Ok(b) = inkayaku_board::Bitboard::from_fen_string("4k3/8/8/8/3B4/8/8/4K3 w - - 0 1") {
                let _ = b.generate_pseudo_legal_moves();
            }
        }
        "movegen_black_rook_only" => {
            if let Ok(b) = inkayaku_board::Bitboard::from_fen_string("4k3/8/8/8/3r4/8/8/4K3 b - - 0 1") {
                let _ = b.generate_pseudo_legal_moves();
            }
        }
        _ => {}
    }
    // one work item per (piece kind, square)
    let items: Vec<(bool, u8)> = [true, false].iter().flat_map(|&rk| (0..64u8).map(move |s| (rk, s))).collect();
    par_map(&items, |&(rook, sq)| {
        let name = if rook { "rook" } else { "bishop" };
        let rays = full_rays(rook, sq);
        let off = !rays & !(1u64 << sq);
        let tlen = magic::table_len(rook, sq as u32);
        let mut local_lookups = 0u64;
        let mut local_cfg = 0u64;
        let check = |occ: u64, what: &str| -> bool {
            let idx = magic::index(rook, sq as u32, occ);
            if idx >= tlen {
                rep.report(format!("index_out_of_range:{}", name), json!({"kind": "lookup", "piece": name, "square": sq_name(sq), "occupancy": occ, "index": idx, "table_len": tlen, "variant": what}));
                return false;
            }
            // the table the move generator reads (whatever board.rs's imports are bound to) ...
            let got = inkayaku_board::verif::in_use::slider(rook, sq as u32, occ);
            let want = ref_attacks(rook, sq, occ);
            // ... and the table of constants in magic.rs, should the two ever be different objects
            let got_const = magic::lookup(rook, sq as u32, occ);
            if got == want && got_const != want {
                rep.report(format!("wrong_attack_set_in_constant_table:{}:{}", name, what), json!({"kind": "lookup", "piece": name, "square": sq_name(sq), "occupancy": occ, "expected": want, "actual": got_const, "variant": what}));
                return false;
            }
            if got != want {
                rep.report(format!("wrong_attack_set:{}:{}", name, what), json!({"kind": "lookup", "piece": name, "square": sq_name(sq), "occupancy": occ, "expected": want, "actual": got, "variant": what}));
                return false;
            }
            true
        };
        // Carry-Rippler over all subsets of the full ray set (edges included)
        let mut sub = 0u64;
        loop {
            local_cfg += 1;
            let mut ok = check(sub, "subset_of_rays");
            local_lookups += 1;
            if ok {
                ok = check(sub | off | (1u64 << sq), "all_off_ray_bits_set");
                local_lookups += 1;
            }
            if ok {
                let mut o = off;
                while o != 0 {
                    let b = o & o.wrapping_neg();
                    o &= o - 1;
                    local_lookups += 1;
                    if !check(sub | b, "single_off_ray_bit") {
                        break;
                    }
                }
            }
            sub = sub.wrapping_sub(rays) & rays;
            if sub == 0 {
                break;
            }
        }
        // the classical reduced space (subsets of the relevant-blocker mask) is a subset of the
        // above; counted separately so the evidence shows the 102 400 + 5 248 figure
        let rel = relevant_mask(rook, sq);
        relevant_configs.fetch_add(1u64 << rel.count_ones(), Ordering::Relaxed);
        // hook-free binding to real use: a lone white piece, black knights on the blockers
        let mut sub = 0u64;
        let mut local_boards = 0u64;
        loop {
            for piece in [if rook { ROOK } else { BISHOP }, QUEEN] {
                let mut p = Pos::empty();
                p.board[sq as usize] = pc(WHITE, piece);
                let mut o = sub;
                while o != 0 {
                    let s = o.trailing_zeros();
                    o &= o - 1;
                    p.board[s as usize] = pc(BLACK, KNIGHT);
                }
                let fen = p.to_fen();
                set_current_case(&fen);
                local_boards += 1;
                match guarded(|| {
                    let b = Bitboard::from_fen_string(&fen).map_err(|e| format!("{:?}", e))?;
                    let mut t = 0u64;
                    for m in b.generate_pseudo_legal_moves() {
                        if m.get_source_square() == sq as u32 {
                            t |= 1u64 << m.get_target_square();
                        }
                    }
                    Ok::<u64, String>(t)
                }) {
                    Ok(Ok(targets)) => {
                        let mut want = ref_attacks(rook, sq, sub);
                        if piece == QUEEN {
                            want |= ref_attacks(!rook, sq, sub);
                        }
                        if targets != want {
                            rep.report(format!("movegen_targets_differ:{}", if piece == QUEEN { "queen" } else { name }), json!({"kind": "board", "fen": fen, "square": sq_name(sq), "expected": want, "actual": targets}));
                        }
                    }
                    Ok(Err(e)) => rep.machinery(format!("FEN rejected {}: {}", fen, e)),
                    Err(m) => rep.report(format!("panic:{}", crate::board_checks::short(&m)), json!({"kind": "board", "fen": fen, "panic": m})),
                }
            }
            sub = sub.wrapping_sub(rel) & rel;
            if sub == 0 {
                break;
            }
        }
        lookups.fetch_add(local_lookups, Ordering::Relaxed);
        configs.fetch_add(local_cfg, Ordering::Relaxed);
        boards.fetch_add(local_boards, Ordering::Relaxed);
    });

    // the occupancies real positions have, whatever stands on the looked-up square: the start
    // position, the well-known roots and everything within two plies of them, for all 64 squares and
    // both slider kinds (a lookup may only depend on the bits on the square's rays)
    let real_n = AtomicU64::new(0);
    {
        let collect = std::sync::Mutex::new(std::collections::HashSet::new());
        crate::families::reach(&crate::families::roots(), 2, &|p: &Pos, _| {
            let mut occ = 0u64;
            for sq in 0..64u8 {
                if p.board[sq as usize] != EMPTY {
                    occ |= 1u64 << sq;
                }
            }
            collect.lock().unwrap().insert(occ);
        });
        let mut occs: Vec<u64> = collect.into_inner().unwrap().into_iter().collect();
        occs.push(0xFFFF_0000_0000_FFFF);
        occs.push(0xFFFF_FFFF_FFFF_FFFF);
        occs.push(0);
        occs.sort();
        occs.dedup();
        par_map(&occs, |&occ| {
            for rook in [true, false] {
                for sq in 0..64u8 {
                    real_n.fetch_add(1, Ordering::Relaxed);
                    let got = inkayaku_board::verif::in_use::slider(rook, sq as u32, occ);
                    let want = ref_attacks(rook, sq, occ);
                    if got != want {
                        rep.report(format!("wrong_attack_set:{}:occupancy_of_a_real_position", if rook { "rook" } else { "bishop" }), json!({"kind": "lookup", "piece": if rook { "rook" } else { "bishop" }, "square": sq_name(sq), "occupancy": occ, "expected": want, "actual": got, "variant": "occupancy of a real position"}));
                        return;
                    }
                }
            }
        });
    }
    // leapers
    let names = ["king", "knight", "white_pawn", "black_pawn"];
    let mut leaper_entries = 0u64;
    for which in 0..4u32 {
        for sq in 0..64u8 {
            leaper_entries += 1;
            let got = inkayaku_board::verif::in_use::leaper(which, sq as u32);
            let want = ref_leaper(which, sq);
            if got == want && nonmagic::leaper(which, sq as u32) != want {
                rep.report(format!("leaper_entry_in_constant_table:{}", names[which as usize]), json!({"kind": "leaper", "table": names[which as usize], "square": sq_name(sq), "expected": want, "actual": nonmagic::leaper(which, sq as u32)}));
            }
            if got != want {
                rep.report(format!("leaper_entry:{}", names[which as usize]), json!({"kind": "leaper", "table": names[which as usize], "square": sq_name(sq), "expected": want, "actual": got}));
            }
        }
    }
    let _ = tier;
    // the main run repeats the whole enumeration in fresh processes that start with a different
    // first operation each
    let mut children: Vec<serde_json::Value> = Vec::new();
    if first.is_empty() {
        if let Ok(exe) = std::env::current_exe() {
            for order in ["bishop_a8", "bishop_h1", "rook_e4", "knight_then_bishop", "movegen_bishop_only", "movegen_black_rook_only"] {
                let out = std::process::Command::new(&exe).args(["C04", "quick"]).env("IVK_C04_FIRST", order).env("IVK_NO_EVIDENCE", "1").env("IVK_REPLAY_MODE", "1").output();
                match out {
                    Ok(o) => {
                        let text = String::from_utf8_lossy(&o.stdout).to_string();
                        let code = o.status.code().unwrap_or(-1);
                        let sigs: Vec<String> = text.lines().filter(|l| l.starts_with("VIOLATION")).map(|l| l.split('[').nth(1).unwrap_or("").trim_end_matches(']').to_string()).collect();
                        children.push(json!({"first_operation_of_the_process": order, "exit": code, "signatures": sigs}));
                        if code == 1 {
                            rep.report(format!("depends_on_what_the_process_touched_first:{}", order), json!({"kind": "first_touch", "first_operation_of_the_process": order, "signatures_in_that_process": sigs}));
                        } else if code != 0 {
                            rep.machinery(format!("child process for first operation {} ended with {}: {}", order, code, String::from_utf8_lossy(&o.stderr).chars().take(300).collect::<String>()));
                        }
                    }
                    Err(e) => rep.machinery(format!("cannot start child process: {}", e)),
                }
            }
        }
    }
    let mut cov = Coverage::new();
    cov.set("fresh_processes_with_a_different_first_operation", json!(children));
    cov.states = configs.load(Ordering::Relaxed) + leaper_entries;
    cov.transitions = lookups.load(Ordering::Relaxed) + leaper_entries + boards.load(Ordering::Relaxed);
    cov.traces_validated = cov.transitions;
    cov.exhaustive = true;
    cov.set("ray_subset_configurations", json!(configs.load(Ordering::Relaxed)));
    cov.set("relevant_mask_configurations", json!(relevant_configs.load(Ordering::Relaxed)));
    cov.set("table_lookups", json!(lookups.load(Ordering::Relaxed)));
    cov.set("leaper_entries", json!(leaper_entries));
    cov.set("lookups_with_occupancies_of_real_positions", json!(real_n.load(Ordering::Relaxed)));
    cov.set("boards_through_move_generation", json!(boards.load(Ordering::Relaxed)));
    cov.set("explanation", json!("for each of 64 squares x {rook, bishop}: every subset of the full ray set (edge squares included), each also with all off-ray bits set and with each single off-ray bit set; index < table length checked before every unchecked lookup; all 4x64 leaper entries; every subset of the relevant-blocker mask additionally driven through FEN + generate_pseudo_legal_moves with a lone rook/bishop/queen"));
    cov.samples = vec![json!({"piece": "rook", "square": "d4", "occupancy_subset_of_rays": "0x0008000000080000", "oracle": "ray walk until first blocker, blocker included"}), json!({"leaper": "knight", "square": "a1", "expected": ref_leaper(1, 56)})];
    cov.assumptions = vec!["a lookup depends on the occupancy only through the bits on the square's rays: tested (all-off-ray and single-off-ray variants), not assumed".into()];
    finish(&rep, tier, cov, started)
}

#[cfg(not(inkayaku_verif))]
pub fn run(_tier: Tier) -> i32 {
    eprintln!("C04 needs the hook build (--cfg inkayaku_verif)");
    2
}

pub fn replay(case: &serde_json::Value) -> i32 {
    // the space is small: a replay simply re-runs the complete enumeration — in a process that starts
    // with the recorded first operation, if the case has one
    if let Some(order) = case["first_operation_of_the_process"].as_str() {
        if std::env::var("IVK_C04_FIRST").is_err() {
            if let Ok(exe) = std::env::current_exe() {
                if let Ok(st) = std::process::Command::new(exe).args(["C04", "quick"]).env("IVK_C04_FIRST", order).env("IVK_NO_EVIDENCE", "1").env("IVK_REPLAY_MODE", "1").status() {
                    return st.code().unwrap_or(2);
                }
            }
        }
    }
    run(Tier::Quick)
}
