//! Shared machinery: reporter (violations, signatures, replays, known findings), evidence
//! writer, parallel helpers, subject snapshots.

use inkayaku_board::constants::NO_SQUARE;
use inkayaku_board::Bitboard;
use refchess::Pos;
use serde_json::{json, Value};
use std::collections::BTreeMap;
use std::panic::{catch_unwind, AssertUnwindSafe};
use std::sync::atomic::{AtomicU64, AtomicUsize, Ordering};
use std::sync::Mutex;
use std::time::Instant;

/// root of the verification tree (evidence/, replays/, known_findings.jsonl); `./check` exports it
pub fn verif_root() -> String {
    std::env::var("IVK_VERIF_ROOT").unwrap_or_else(|_| "/verif".to_string())
}

#[derive(Clone, Copy, PartialEq, Eq, Debug)]
pub enum Tier {
    Quick,
    Thorough,
}

impl Tier {
    pub fn name(&self) -> &'static str {
        match self {
            Tier::Quick => "quick",
            Tier::Thorough => "thorough",
        }
    }
}

/// last panic message per thread (the engine's search thread panics are read from here)
pub static PANICS: Mutex<Vec<(std::thread::ThreadId, String)>> = Mutex::new(Vec::new());

pub fn silence_panics() {
    std::panic::set_hook(Box::new(|info| {
        let msg = if let Some(s) = info.payload().downcast_ref::<&str>() {
            s.to_string()
        } else if let Some(s) = info.payload().downcast_ref::<String>() {
            s.clone()
        } else {
            "panic".to_string()
        };
        let loc = info.location().map(|l| format!(" at {}:{}", l.file(), l.line())).unwrap_or_default();
        if std::thread::current().name() == Some("main") && GUARD_DEPTH.with(|d| d.get()) == 0 {
            // never the subject (it runs under `guarded` or on its own threads): a harness error
            eprintln!("MACHINERY: harness panic on the main thread: {}{}", msg, loc);
        }
        if let Ok(mut g) = PANICS.lock() {
            if g.len() > 10_000 {
                g.clear();
            }
            g.push((std::thread::current().id(), format!("{}{}", msg, loc)));
        }
    }));
}

pub fn last_panic_of(id: std::thread::ThreadId) -> Option<String> {
    PANICS.lock().ok().and_then(|g| g.iter().rev().find(|(t, _)| *t == id).map(|(_, m)| m.clone()))
}

/// run the subject, turning an unwinding panic into Err(message)
thread_local! {
    /// > 0 while this thread runs the subject under `guarded` (a panic there is the subject's)
    pub static GUARD_DEPTH: std::cell::Cell<u32> = std::cell::Cell::new(0);
}

pub fn guarded<T>(f: impl FnOnce() -> T) -> Result<T, String> {
    GUARD_DEPTH.with(|d| d.set(d.get() + 1));
    let r = catch_unwind(AssertUnwindSafe(f));
    GUARD_DEPTH.with(|d| d.set(d.get().saturating_sub(1)));
    match r {
        Ok(v) => Ok(v),
        Err(e) => {
            let msg = if let Some(s) = e.downcast_ref::<&str>() {
                s.to_string()
            } else if let Some(s) = e.downcast_ref::<String>() {
                s.clone()
            } else {
                "panic".to_string()
            };
            Err(msg)
        }
    }
}

// ---------------------------------------------------------------------------------------
// snapshots

#[derive(Clone, PartialEq, Eq, Debug)]
pub struct Snap {
    pub occ: [[u64; 6]; 2],
    pub turn: u32,
    pub rights: [bool; 4],
    pub ep: u32,
    pub half: u32,
    pub full: u32,
    pub hash: u64,
    pub pawn_hash: u64,
}

pub fn snap(b: &Bitboard) -> Snap {
    let mut occ = [[0u64; 6]; 2];
    for k in 1..=6u64 {
        occ[0][(k - 1) as usize] = b.white.occupancy(k);
        occ[1][(k - 1) as usize] = b.black.occupancy(k);
    }
    Snap {
        occ,
        turn: b.turn,
        rights: [b.white.king_side_castle, b.white.queen_side_castle, b.black.king_side_castle, b.black.queen_side_castle],
        ep: b.en_passant_square_shift,
        half: b.halfmove_clock,
        full: b.fullmove_clock,
        hash: b.calculate_zobrist_hash(),
        pawn_hash: b.calculate_zobrist_pawn_hash(),
    }
}

impl Snap {
    /// which components differ (for signatures / reports)
    pub fn diff(&self, o: &Snap) -> Vec<&'static str> {
        let mut d = Vec::new();
        if self.occ != o.occ {
            d.push("placement");
        }
        if self.turn != o.turn {
            d.push("side");
        }
        if self.rights != o.rights {
            d.push("rights");
        }
        if self.ep != o.ep {
            d.push("ep");
        }
        if self.half != o.half {
            d.push("halfmove");
        }
        if self.full != o.full {
            d.push("fullmove");
        }
        if self.hash != o.hash {
            d.push("hash");
        }
        if self.pawn_hash != o.pawn_hash {
            d.push("pawnhash");
        }
        d
    }

    /// render as a refchess position (independent of the subject's FEN writer)
    pub fn to_pos(&self) -> Pos {
        let mut p = Pos::empty();
        for c in 0..2 {
            for k in 0..6 {
                let mut bits = self.occ[c][k];
                while bits != 0 {
                    let s = bits.trailing_zeros() as usize;
                    bits &= bits - 1;
                    p.board[s] = refchess::pc(c as u8, (k + 1) as u8);
                }
            }
        }
        p.stm = self.turn as u8;
        p.castle = (self.rights[0] as u8) | ((self.rights[1] as u8) << 1) | ((self.rights[2] as u8) << 2) | ((self.rights[3] as u8) << 3);
        p.ep = if self.ep == NO_SQUARE { refchess::NO_EP } else { self.ep as u8 };
        p.half = self.half as u64;
        p.full = self.full as u64;
        p
    }
}

pub fn board_from_pos(p: &Pos) -> Result<Bitboard, String> {
    let fen = p.to_fen();
    match guarded(|| Bitboard::from_fen_string(&fen)) {
        Ok(Ok(b)) => Ok(b),
        Ok(Err(e)) => Err(format!("valid FEN rejected: {} ({:?})", fen, e)),
        Err(m) => Err(format!("panic parsing valid FEN {}: {}", fen, m)),
    }
}

// ---------------------------------------------------------------------------------------
// reporter

pub struct Finding {
    pub signature: String,
    pub detail: Value,
}

#[derive(Default)]
struct SigEntry {
    count: u64,
    samples: Vec<Value>,
}

pub struct Reporter {
    pub property: String,
    sigs: Mutex<BTreeMap<String, SigEntry>>,
    pub machinery_errors: Mutex<Vec<String>>,
    /// a few of the actual cases this run judged, written into the evidence
    actual_samples: Mutex<Vec<Value>>,
    sample_budget: AtomicUsize,
}

impl Reporter {
    pub fn new(property: &str) -> Self {
        Reporter { property: property.to_string(), sigs: Mutex::new(BTreeMap::new()), machinery_errors: Mutex::new(Vec::new()), actual_samples: Mutex::new(Vec::new()), sample_budget: AtomicUsize::new(0) }
    }
    /// record an actual judged case (every 2^k-th call up to a handful: first, 2nd, 4th, ... so the
    /// samples spread over the run); the closure is only evaluated when the case is kept
    pub fn sample(&self, f: impl FnOnce() -> Value) {
        let n = self.sample_budget.fetch_add(1, Ordering::Relaxed) + 1;
        if n.is_power_of_two() && (n <= 4 || n % 4096 == 0) {
            let mut g = self.actual_samples.lock().unwrap();
            if g.len() < 12 {
                g.push(f());
            }
        }
    }
    pub fn take_samples(&self) -> Vec<Value> {
        self.actual_samples.lock().unwrap().clone()
    }
    pub fn report(&self, signature: impl Into<String>, detail: Value) {
        let mut g = self.sigs.lock().unwrap();
        let e = g.entry(signature.into()).or_default();
        e.count += 1;
        if e.samples.len() < 5 {
            e.samples.push(detail);
        }
    }
    pub fn machinery(&self, msg: impl Into<String>) {
        let mut g = self.machinery_errors.lock().unwrap();
        if g.len() < 50 {
            g.push(msg.into());
        }
    }
    pub fn violation_count(&self) -> u64 {
        self.sigs.lock().unwrap().values().map(|e| e.count).sum()
    }
    pub fn signature_count(&self) -> usize {
        self.sigs.lock().unwrap().len()
    }
}

#[derive(Clone)]
pub struct KnownEntry {
    pub status: String,
    pub property: String,
    pub signature: String,
    pub what: String,
}

pub fn load_known() -> Vec<KnownEntry> {
    let path = format!("{}/known_findings.jsonl", verif_root());
    let mut out = Vec::new();
    if let Ok(text) = std::fs::read_to_string(&path) {
        for line in text.lines() {
            let line = line.trim();
            if line.is_empty() || line.starts_with('#') {
                continue;
            }
            if let Ok(v) = serde_json::from_str::<Value>(line) {
                out.push(KnownEntry {
                    status: v["status"].as_str().unwrap_or("").to_string(),
                    property: v["property"].as_str().unwrap_or("").to_string(),
                    signature: v["signature"].as_str().unwrap_or("").to_string(),
                    what: v["what"].as_str().unwrap_or("").to_string(),
                });
            }
        }
    }
    out
}

/// signature patterns: exact match, or prefix match when the pattern ends with '*'
fn sig_matches(pattern: &str, sig: &str) -> bool {
    if let Some(prefix) = pattern.strip_suffix('*') {
        sig.starts_with(prefix)
    } else {
        pattern == sig
    }
}

pub struct Coverage {
    pub states: u64,
    pub transitions: u64,
    pub traces_validated: u64,
    pub samples: Vec<Value>,
    pub exhaustive: bool,
    pub extra: BTreeMap<String, Value>,
    pub assumptions: Vec<String>,
}

impl Coverage {
    pub fn new() -> Self {
        Coverage { states: 0, transitions: 0, traces_validated: 0, samples: Vec::new(), exhaustive: false, extra: BTreeMap::new(), assumptions: Vec::new() }
    }
    pub fn set(&mut self, k: &str, v: Value) {
        self.extra.insert(k.to_string(), v);
    }
}

/// Writes evidence, replays, prints verdict lines; returns the process exit code.
pub fn finish(rep: &Reporter, tier: Tier, cov: Coverage, started: Instant) -> i32 {
    let prop = rep.property.clone();
    let known = load_known();
    let sigs = rep.sigs.lock().unwrap();
    let mut exit = 0;
    let mut n_replay = 0;
    let replay_dir = format!("{}/replays", verif_root());
    let _ = std::fs::create_dir_all(&replay_dir);
    let mut unknown_sigs = 0u64;
    let mut known_hits: Vec<(String, u64)> = Vec::new();
    let mut lines = Vec::new();
    for (sig, e) in sigs.iter() {
        let k = known.iter().find(|k| k.status == "known" && k.property == prop && sig_matches(&k.signature, sig));
        if let Some(k) = k {
            known_hits.push((k.signature.clone(), e.count));
            lines.push(format!("KNOWN-FINDING: property={} {} [signature={} cases={}]", prop, k.what, sig, e.count));
            continue;
        }
        unknown_sigs += 1;
        exit = 1;
        for (i, s) in e.samples.iter().enumerate() {
            n_replay += 1;
            let path = format!("{}/{}-{}.json", replay_dir, prop, n_replay);
            let doc = json!({"property": prop, "signature": sig, "cases_with_this_signature": e.count, "case": s});
            // replay runs (and mutant evaluations that must not touch evidence) keep recorded files
            if std::env::var("IVK_REPLAY_MODE").is_err() {
                let _ = std::fs::write(&path, serde_json::to_string_pretty(&doc).unwrap());
            }
            if i == 0 && unknown_sigs <= 25 {
                lines.push(format!("VIOLATION property={} replay={}   [{} x{}]", prop, path, sig, e.count));
            }
        }
    }
    let mach = rep.machinery_errors.lock().unwrap();
    if !mach.is_empty() {
        for m in mach.iter() {
            eprintln!("MACHINERY: {}", m);
        }
        if exit == 0 {
            exit = 2;
        }
    }
    let total_viol: u64 = sigs.values().map(|e| e.count).sum();
    let wall = started.elapsed().as_secs_f64();
    let mut coverage = serde_json::Map::new();
    coverage.insert("states".into(), json!(cov.states.max(1)));
    coverage.insert("transitions".into(), json!(cov.transitions.max(1)));
    coverage.insert("traces_validated_against_impl".into(), json!(cov.traces_validated));
    let mut samples = rep.take_samples();
    samples.extend(cov.samples.iter().cloned());
    if samples.is_empty() {
        samples.push(json!("(no sample recorded)"));
    }
    coverage.insert("samples".into(), json!(samples));
    coverage.insert("exhaustive".into(), json!(cov.exhaustive));
    coverage.insert("violating_cases".into(), json!(total_viol));
    coverage.insert("violation_signatures_unlisted".into(), json!(unknown_sigs));
    coverage.insert("known_finding_signatures_hit".into(), json!(known_hits.iter().map(|(s, c)| json!({"signature": s, "cases": c})).collect::<Vec<_>>()));
    for (k, v) in cov.extra.iter() {
        coverage.insert(k.clone(), v.clone());
    }
    let seed: i64 = std::env::var("VERIF_SEED").ok().and_then(|s| s.parse().ok()).unwrap_or(0);
    let ev = json!({
        "property_id": prop,
        "tier": tier.name(),
        "seed": seed,
        "level": "model_checking",
        "coverage": Value::Object(coverage),
        "assumptions": cov.assumptions,
        "wall_s": wall,
        "violations": total_viol,
    });
    let ev_dir = format!("{}/evidence", verif_root());
    let _ = std::fs::create_dir_all(&ev_dir);
    // replay mode must not overwrite evidence
    if std::env::var("IVK_NO_EVIDENCE").is_err() {
        let _ = std::fs::write(format!("{}/{}.json", ev_dir, prop), serde_json::to_string_pretty(&ev).unwrap());
    }
    for l in lines {
        println!("{}", l);
    }
    println!(
        "{} {}: states={} transitions={} violating_cases={} signatures={} wall={:.1}s exit={}",
        prop,
        tier.name(),
        cov.states,
        cov.transitions,
        total_viol,
        sigs.len(),
        wall,
        exit
    );
    exit
}

// ---------------------------------------------------------------------------------------
// parallel helpers

pub fn n_threads() -> usize {
    std::env::var("IVK_THREADS").ok().and_then(|s| s.parse().ok()).unwrap_or_else(|| std::thread::available_parallelism().map(|n| n.get()).unwrap_or(4))
}

/// Call `f(i)` for every i in 0..n on all cores (dynamic chunks). `f` must be Sync.
pub fn par_for(n: u64, chunk: u64, f: impl Fn(u64) + Sync) {
    let next = AtomicU64::new(0);
    let threads = n_threads();
    std::thread::scope(|s| {
        for _ in 0..threads {
            s.spawn(|| loop {
                let start = next.fetch_add(chunk, Ordering::Relaxed);
                if start >= n {
                    break;
                }
                let end = (start + chunk).min(n);
                for i in start..end {
                    f(i);
                }
            });
        }
    });
}

/// parallel map over a slice preserving order of chunks: returns per-item outputs concatenated
pub fn par_map<T: Sync, R: Send>(items: &[T], f: impl Fn(&T) -> R + Sync) -> Vec<R> {
    let n = items.len();
    let chunk = (n / (n_threads() * 8)).max(1);
    par_map_chunk(items, chunk, f)
}

/// one item per grab: for expensive, uneven items (engine searches)
pub fn par_map_fine<T: Sync, R: Send>(items: &[T], f: impl Fn(&T) -> R + Sync) -> Vec<R> {
    par_map_chunk(items, 1, f)
}

pub fn par_map_chunk<T: Sync, R: Send>(items: &[T], chunk: usize, f: impl Fn(&T) -> R + Sync) -> Vec<R> {
    let n = items.len();
    let next = AtomicUsize::new(0);
    let threads = n_threads();
    let results: Mutex<Vec<(usize, Vec<R>)>> = Mutex::new(Vec::new());
    std::thread::scope(|s| {
        for _ in 0..threads {
            s.spawn(|| loop {
                let start = next.fetch_add(chunk, Ordering::Relaxed);
                if start >= n {
                    break;
                }
                let end = (start + chunk).min(n);
                let out: Vec<R> = items[start..end].iter().map(|x| f(x)).collect();
                results.lock().unwrap().push((start, out));
            });
        }
    });
    let mut r = results.into_inner().unwrap();
    r.sort_by_key(|(s, _)| *s);
    r.into_iter().flat_map(|(_, v)| v).collect()
}

/// Simple thread-safe counters keyed by name (non-vacuity counters).
#[derive(Default)]
pub struct Counters {
    m: Mutex<BTreeMap<&'static str, u64>>,
}
impl Counters {
    pub fn add_all(&self, local: &BTreeMap<&'static str, u64>) {
        let mut g = self.m.lock().unwrap();
        for (k, v) in local {
            *g.entry(k).or_insert(0) += v;
        }
    }
    pub fn get(&self, k: &str) -> u64 {
        *self.m.lock().unwrap().get(k).unwrap_or(&0)
    }
    pub fn to_json(&self) -> Value {
        let g = self.m.lock().unwrap();
        let mut m = serde_json::Map::new();
        for (k, v) in g.iter() {
            m.insert(k.to_string(), json!(v));
        }
        Value::Object(m)
    }
}

// ---------------------------------------------------------------------------------------
// aborts of the subject (non-unwinding panics: a violated get_unchecked precondition, a panic in
// a destructor) cannot be caught; a signal handler turns them into a verdict with the case the
// aborting thread was working on.

const CASE_CAP: usize = 256;

thread_local! {
    static CURRENT_CASE: std::cell::UnsafeCell<([u8; CASE_CAP], usize)> = const { std::cell::UnsafeCell::new(([0u8; CASE_CAP], 0)) };
}

static mut ABORT_PROP: [u8; 8] = [0; 8];
static mut ABORT_PATH: [u8; 128] = [0; 128];

/// remember what this thread is about to hand to the subject (cheap: one memcpy)
#[inline]
pub fn set_current_case(text: &str) {
    CURRENT_CASE.with(|c| unsafe {
        let cell = &mut *c.get();
        let n = text.len().min(CASE_CAP);
        cell.0[..n].copy_from_slice(&text.as_bytes()[..n]);
        cell.1 = n;
    });
}

extern "C" {
    fn signal(signum: i32, handler: usize) -> usize;
    fn write(fd: i32, buf: *const u8, count: usize) -> isize;
    fn open(path: *const u8, flags: i32, mode: u32) -> i32;
    fn close(fd: i32) -> i32;
    fn _exit(code: i32) -> !;
}

unsafe fn put(fd: i32, b: &[u8]) {
    let _ = write(fd, b.as_ptr(), b.len());
}

extern "C" fn on_abort(sig: i32) {
    unsafe {
        let prop_len = ABORT_PROP.iter().position(|&b| b == 0).unwrap_or(0);
        let path_len = ABORT_PATH.iter().position(|&b| b == 0).unwrap_or(0);
        // O_WRONLY|O_CREAT|O_TRUNC = 1|64|512
        let fd = open(ABORT_PATH.as_ptr(), 1 | 64 | 512, 0o644);
        if fd >= 0 {
            put(fd, b"{\"property\": \"");
            put(fd, &ABORT_PROP[..prop_len]);
            put(fd, b"\", \"signature\": \"process_abort_in_subject\", \"case\": {\"kind\": \"state\", \"signal\": ");
            put(fd, if sig == 6 { b"6" } else { b"11" });
            put(fd, b", \"fen\": \"");
            CURRENT_CASE.with(|c| {
                let cell = &*c.get();
                put(fd, &cell.0[..cell.1]);
            });
            put(fd, b"\"}}\n");
            close(fd);
        }
        put(1, b"VIOLATION property=");
        put(1, &ABORT_PROP[..prop_len]);
        put(1, b" replay=");
        put(1, &ABORT_PATH[..path_len]);
        put(1, b"   [the subject aborted the process (non-unwinding panic or fault); case: ");
        CURRENT_CASE.with(|c| {
            let cell = &*c.get();
            put(1, &cell.0[..cell.1]);
        });
        put(1, b"]\n");
        _exit(1);
    }
}

pub fn install_abort_handler(prop: &str) {
    unsafe {
        let p = prop.as_bytes();
        ABORT_PROP[..p.len().min(7)].copy_from_slice(&p[..p.len().min(7)]);
        let path = format!("{}/replays/{}-abort.json", verif_root(), prop);
        let _ = std::fs::create_dir_all(format!("{}/replays", verif_root()));
        let b = path.as_bytes();
        ABORT_PATH[..b.len().min(127)].copy_from_slice(&b[..b.len().min(127)]);
        signal(6, on_abort as usize);
        signal(11, on_abort as usize);
    }
}
