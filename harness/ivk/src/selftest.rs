//! Keeps the reference model honest: published perft numbers, hand-checked SAN, FEN round trips.
//! A failure here is a machinery failure (exit 2), never a verdict about the subject.

use refchess::fen::{classify, FenClass};
use refchess::san::{parse_fields, resolve, san, SanVerdict};
use refchess::*;

const PERFT: &[(&str, &[u64])] = &[
    ("rnbqkbnr/pppppppp/8/8/8/8/PPPPPPPP/RNBQKBNR w KQkq - 0 1", &[20, 400, 8902, 197281, 4865609]),
    ("r3k2r/p1ppqpb1/bn2pnp1/3PN3/1p2P3/2N2Q1p/PPPBBPPP/R3K2R w KQkq - 0 1", &[48, 2039, 97862, 4085603]),
    ("8/2p5/3p4/KP5r/1R3p1k/8/4P1P1/8 w - - 0 1", &[14, 191, 2812, 43238, 674624]),
    ("r3k2r/Pppp1ppp/1b3nbN/nP6/BBP1P3/q4N2/Pp1P2PP/R2Q1RK1 w kq - 0 1", &[6, 264, 9467, 422333]),
    ("rnbq1k1r/pp1Pbppp/2p5/8/2B5/8/PPP1NnPP/RNBQK2R w KQ - 1 8", &[44, 1486, 62379, 2103487]),
    ("r4rk1/1pp1qppp/p1np1n2/2b1p1B1/2B1P1b1/P1NP1N2/1PP1QPPP/R4RK1 w - - 0 10", &[46, 2079, 89890, 3894594]),
];

/// (fen, uci, expected SAN) — hand-checked
const SAN_TABLE: &[(&str, &str, &str)] = &[
    ("rnbqkbnr/pppppppp/8/8/8/8/PPPPPPPP/RNBQKBNR w KQkq - 0 1", "e2e4", "e4"),
    ("rnbqkbnr/pppppppp/8/8/8/8/PPPPPPPP/RNBQKBNR w KQkq - 0 1", "g1f3", "Nf3"),
    // two knights, neither file nor rank shared: file disambiguation
    ("4k3/8/8/8/8/5N2/8/1N2K3 w - - 0 1", "b1d2", "Nbd2"),
    ("4k3/8/8/8/8/5N2/8/1N2K3 w - - 0 1", "f3d2", "Nfd2"),
    // same file: rank disambiguation
    ("4k3/8/8/8/8/1N6/8/1N2K3 w - - 0 1", "b1d2", "N1d2"),
    ("4k3/8/8/8/8/1N6/8/1N2K3 w - - 0 1", "b3d2", "N3d2"),
    // three queens: file+rank needed for the corner one
    ("6k1/8/8/8/Q6Q/8/8/Q3K3 w - - 0 1", "a4d4", "Qa4d4"),
    ("6k1/8/8/8/Q6Q/8/8/Q3K3 w - - 0 1", "a1d4", "Q1d4"),
    ("6k1/8/8/8/Q6Q/8/8/Q3K3 w - - 0 1", "h4d4", "Qhd4"),
    // pinned knight does not count for disambiguation
    ("4k3/8/8/8/4r3/8/4N3/1N2K3 w - - 0 1", "b1c3", "Nc3"),
    // captures, e.p., promotion, castling, check, mate, stalemate (no '#')
    ("rnbqkbnr/ppp1p1pp/8/3pPp2/8/8/PPPP1PPP/RNBQKBNR w KQkq f6 0 3", "e5f6", "exf6"),
    ("4k2r/6P1/8/8/8/8/8/4K3 w k - 0 1", "g7h8q", "gxh8=Q+"),
    ("4k2r/6P1/8/8/8/8/8/4K3 w k - 0 1", "g7g8n", "g8=N"),
    ("r3k2r/8/8/8/8/8/8/R3K2R w KQkq - 0 1", "e1g1", "O-O"),
    ("r3k2r/8/8/8/8/8/8/R3K2R b KQkq - 0 1", "e8c8", "O-O-O"),
    ("5k2/8/8/8/8/8/8/R3K2R w KQ - 0 1", "e1g1", "O-O+"),
    ("r1bqkbnr/pppp1ppp/2n5/4p3/2B1P3/5Q2/PPPP1PPP/RNB1K1NR w KQkq - 0 1", "f3f7", "Qxf7#"),
    ("7k/8/4Q3/8/8/8/8/K7 w - - 0 1", "e6f7", "Qf7"),
    ("7k/8/4Q3/8/8/8/8/K7 w - - 0 1", "e6e8", "Qe8+"),
    ("6k1/5ppp/8/8/8/8/8/R3K3 w Q - 0 1", "a1a8", "Ra8#"),
];

pub fn run() -> i32 {
    let mut bad = 0;
    for (fen, counts) in PERFT {
        let p = match Pos::from_fen(fen) {
            Ok(p) => p,
            Err(e) => {
                eprintln!("selftest: fen {} rejected: {}", fen, e);
                bad += 1;
                continue;
            }
        };
        if p.to_fen() != *fen {
            eprintln!("selftest: FEN round trip {} -> {}", fen, p.to_fen());
            bad += 1;
        }
        for (d, &expected) in counts.iter().enumerate() {
            let got = p.perft((d + 1) as u32);
            if got != expected {
                eprintln!("selftest: perft({}) of {} = {} expected {}", d + 1, fen, got, expected);
                bad += 1;
            }
        }
        // flip symmetry of the reference itself
        let f = p.flip();
        if f.perft(2) != counts[1] || f.flip() != p {
            eprintln!("selftest: flip asymmetry on {}", fen);
            bad += 1;
        }
    }
    for (fen, uci, expected) in SAN_TABLE {
        let p = Pos::from_fen(fen).unwrap();
        match p.find_legal_uci(uci) {
            Some(m) => {
                let s = san(&p, &m);
                if s != *expected {
                    eprintln!("selftest: SAN of {} in {} = {} expected {}", uci, fen, s, expected);
                    bad += 1;
                }
                match parse_fields(expected).map(|f| resolve(&p, &f)) {
                    Some(SanVerdict::Exactly(m2)) if m2 == m => {}
                    other => {
                        eprintln!("selftest: resolver on {} in {}: {:?}", expected, fen, other);
                        bad += 1;
                    }
                }
            }
            None => {
                eprintln!("selftest: {} not legal in {}", uci, fen);
                bad += 1;
            }
        }
    }
    // classifier spot checks
    let checks: &[(&str, &str)] = &[
        ("rnbqkbnr/pppppppp/8/8/8/8/PPPPPPPP/RNBQKBNR w KQkq - 0 1", "valid"),
        ("rnbqkbnr/pppppppp/8/8/8/8/PPPPPPPP/RNBQKBNR w KQkq -", "valid"),
        ("rnbqkbnr/pppppppp/8/8/8/8/PPPPPPPP/RNBQKBNR w KQkq - 0", "invalid"),
        ("rnbqkbnr/pppppppp/44/8/8/8/PPPPPPPP/RNBQKBNR w KQkq - 0 1", "invalid"),
        ("rnbqkbnr/pppppppp/9/8/8/8/PPPPPPPP/RNBQKBNR w KQkq - 0 1", "invalid"),
        ("rnbqkbnr/pppppppp/8/8/8/8/PPPPPPPP/RNBQKBNR x KQkq - 0 1", "invalid"),
        ("rnbqkbnr/pppppppp/8/8/8/8/PPPPPPPP/RNBQKBNR w QK - 0 1", "unspecified"),
        ("rnbqkbnr/pppppppp/8/8/8/8/PPPPPPPP/RNBQKBNR w KQkq e4 0 1", "unspecified"),
        ("rnbqkbnr/pppppppp/8/8/8/8/PPPPPPPP/RNBQKBNR w KQkq - 00 1", "unspecified"),
        ("rnbqkbnr/pppppppp/8/8/8/8/PPPPPPPP/RNBQKBNR w KQkq - 0 4294967296", "unspecified"),
        ("rnbqkbnr/pppppppp/8/8/8/8/PPPPPPPP/RNBQKBNR w KQkq - 0 x", "invalid"),
        ("rnbqkbnr/pppppppp/8/8/8/8/PPPPPPPP/RNBQKBN w KQkq - 0 1", "invalid"),
        ("rnbqkbnr/pppppppp/8/8/8/8/PPPPPPPP w KQkq - 0 1", "invalid"),
    ];
    for (s, want) in checks {
        let got = match classify(s) {
            FenClass::Valid { .. } => "valid",
            FenClass::Invalid(_) => "invalid",
            FenClass::Unspecified { .. } => "unspecified",
        };
        if got != *want {
            eprintln!("selftest: classify({}) = {} expected {}", s, got, want);
            bad += 1;
        }
    }
    // every root is canonical and legal (roots() asserts)
    let n = crate::families::roots().len();
    if bad == 0 {
        println!("selftest ok: {} perft roots, {} SAN rows, {} classifier rows, {} family roots", PERFT.len(), SAN_TABLE.len(), checks.len(), n);
        0
    } else {
        eprintln!("selftest FAILED: {} problems (machinery failure)", bad);
        2
    }
}
