//! C17 — the PGN stream reader returns every game completely, however the input is chunked.
//! Documents are generated from a pool of real games; every chunk size and every read
//! fragmentation within the deviation bound is executed on the real reader.

use crate::board_checks::short;
use crate::common::*;
use inkayaku_board::Bitboard;
use inkayaku_pgn::reader::PgnRawParser;
use refchess::san::san;
use refchess::Pos;
use serde_json::{json, Value};
use std::io::Read;
use std::sync::atomic::{AtomicU64, Ordering};
use std::time::Instant;

#[derive(Clone, Debug)]
pub struct Game {
    pub tags: Vec<(String, String)>,
    pub sans: Vec<String>,
    pub result: &'static str,
    pub final_fen: String,
}

/// (uci moves, result, number of tag pairs)
const POOL: &[(&[&str], &str, usize)] = &[
    (&["e2e4", "e7e5", "g1f3", "b8c6", "f1b5", "a7a6"], "1-0", 3),
    (&["e2e4", "e7e5", "g1f3", "b8c6", "f1c4", "f8c5", "e1g1", "g8f6"], "1/2-1/2", 2),
    (&["e2e4", "e7e5", "g1f3", "g8f6", "b1c3", "f8c5", "f1c4", "e8g8"], "0-1", 3),
    (&["d2d4", "d7d5", "b1c3", "b8c6", "c1f4", "c8f5", "d1d2", "d8d7", "e1c1", "e8c8", "e2e3", "e7e6"], "*", 1),
    (&["h2h4", "g7g5", "h4g5", "h7h6", "g5h6", "f8g7", "h6g7", "g8f6", "g7h8q"], "1-0", 2),
    (&["f2f3", "e7e5", "g2g4", "d8h4"], "0-1", 3),
];

const TAGS: &[(&str, &str)] = &[("Event", "Rated Blitz game"), ("Site", "https://lichess.org/AbCd1234"), ("White", "some one")];

pub fn pool() -> Vec<Game> {
    POOL.iter()
        .map(|(moves, result, ntags)| {
            let mut p = Pos::startpos();
            let mut sans = Vec::new();
            for u in moves.iter() {
                let m = p.find_legal_uci(u).unwrap_or_else(|| panic!("pool move {} illegal in {}", u, p.to_fen()));
                sans.push(san(&p, &m));
                p = p.make(&m);
            }
            let mut tags: Vec<(String, String)> = TAGS.iter().take(*ntags).map(|(k, v)| (k.to_string(), v.to_string())).collect();
            if *ntags >= 2 {
                tags[1] = ("Result".to_string(), result.to_string());
            }
            Game { tags, sans, result, final_fen: p.to_fen() }
        })
        .collect::<Vec<Game>>()
        .into_iter()
        .chain(std::iter::once(()).map(|_| {
            // tag values as Lichess really exports them: UTF-8 text (opening and event names)
            let mut p = Pos::startpos();
            let mut sans = Vec::new();
            for u in ["d2d4", "g8f6", "c2c4", "g7g6", "g2g3", "d7d5"] {
                let m = p.find_legal_uci(u).unwrap();
                sans.push(san(&p, &m));
                p = p.make(&m);
            }
            Game { tags: vec![("Event".to_string(), "Grünfeld ♞ Arena".to_string()), ("Result".to_string(), "1/2-1/2".to_string()), ("Opening".to_string(), "Neo-Grünfeld Defense: Réti".to_string())], sans, result: "1/2-1/2", final_fen: p.to_fen() }
        }))
        .chain(std::iter::once(()).map(|_| {
            // tag values with the characters of the tag syntax itself inside them and at their ends:
            // brackets, braces, a result token, a move number, blanks at both ends, an empty value
            let mut p = Pos::startpos();
            let mut sans = Vec::new();
            for u in ["c2c4", "e7e5", "b1c3", "g8f6"] {
                let m = p.find_legal_uci(u).unwrap();
                sans.push(san(&p, &m));
                p = p.make(&m);
            }
            Game {
                tags: vec![
                    ("Event".to_string(), "Hourly Blitz Arena [thematic]".to_string()),
                    ("Result".to_string(), "0-1".to_string()),
                    ("Site".to_string(), "[x]".to_string()),
                    ("Round".to_string(), "]".to_string()),
                    ("Annotator".to_string(), " {curly} 1-0 12. e4 ".to_string()),
                    ("Opening".to_string(), "English Opening: King's English [A21".to_string()),
                    ("Termination".to_string(), "".to_string()),
                ],
                sans,
                result: "0-1",
                final_fen: p.to_fen(),
            }
        }))
        .chain(std::iter::once(()).map(|_| {
            // an analysed game: move tokens with the judgement glyphs a Lichess export carries
            // (?!, ??, !, !!, !?, ?), after the check / mate mark where there is one
            let mut p = Pos::startpos();
            let mut sans = Vec::new();
            for (u, glyph) in [("e2e4", "!"), ("e7e5", ""), ("d1h5", "?!"), ("b8c6", "!!"), ("f1c4", "!?"), ("g8f6", "??"), ("h5f7", "?")] {
                let m = p.find_legal_uci(u).unwrap();
                sans.push(format!("{}{}", san(&p, &m), glyph));
                p = p.make(&m);
            }
            Game { tags: vec![("Event".to_string(), "Analysed game".to_string()), ("Result".to_string(), "1-0".to_string()), ("Annotator".to_string(), "lichess.org".to_string())], sans, result: "1-0", final_fen: p.to_fen() }
        }))
        .collect()
}

fn clk(i: usize) -> String {
    format!(" [%clk 0:0{}:{:02}] ", 2 - (i / 40) % 3, 59 - (i % 60))
}

/// Lichess export layout
pub fn render(games: &[&Game], comments: bool, ending: &str) -> (String, Vec<Vec<Option<String>>>) {
    let mut s = String::new();
    let mut annots = Vec::new();
    for (gi, g) in games.iter().enumerate() {
        for (k, v) in &g.tags {
            s.push_str(&format!("[{} \"{}\"]\n", k, v));
        }
        s.push('\n');
        let mut ga = Vec::new();
        for (i, mv) in g.sans.iter().enumerate() {
            if i % 2 == 0 {
                s.push_str(&format!("{}. ", i / 2 + 1));
            } else if comments {
                s.push_str(&format!("{}... ", i / 2 + 1));
            }
            s.push_str(mv);
            s.push(' ');
            if comments {
                let c = clk(i);
                s.push_str(&format!("{{{}}} ", c));
                ga.push(Some(c));
            } else {
                ga.push(None);
            }
        }
        s.push_str(g.result);
        annots.push(ga);
        if gi + 1 < games.len() {
            s.push_str("\n\n");
        } else {
            s.push_str(ending);
        }
    }
    (s, annots)
}

/// a reader whose i-th read call (0-based) returns `k` bytes if a deviation says so,
/// otherwise fills the buffer
struct FragReader<'a> {
    data: &'a [u8],
    pos: usize,
    call: usize,
    deviations: &'a [(usize, usize)],
    pub calls_log: Vec<usize>,
}

impl<'a> Read for FragReader<'a> {
    fn read(&mut self, buf: &mut [u8]) -> std::io::Result<usize> {
        let want = buf.len().min(self.data.len() - self.pos);
        let mut n = want;
        if let Some((_, k)) = self.deviations.iter().find(|(i, _)| *i == self.call) {
            n = n.min(*k);
        }
        buf[..n].copy_from_slice(&self.data[self.pos..self.pos + n]);
        self.pos += n;
        self.call += 1;
        self.calls_log.push(buf.len());
        Ok(n)
    }
}

#[derive(Debug, Clone, PartialEq)]
pub struct Yielded {
    pub tags: Vec<(String, String)>,
    pub moves: Vec<(String, Option<String>)>,
}

/// run the real reader; returns yielded items (Ok games or error strings) and the buffer sizes
/// the reader asked for on each read call (to enumerate deviations)
fn run_reader(doc: &[u8], chunk: usize, deviations: &[(usize, usize)]) -> Result<(Vec<Result<Yielded, String>>, Vec<usize>), String> {
    guarded(|| {
        let reader = FragReader { data: doc, pos: 0, call: 0, deviations, calls_log: Vec::new() };
        let mut parser = PgnRawParser::with_chunk_size(reader, chunk);
        let mut out = Vec::new();
        // horizon: a document of n bytes cannot hold more than n games
        let horizon = doc.len() + 2;
        loop {
            match parser.next() {
                None => break,
                Some(Ok(raw)) => {
                    let mut tags: Vec<(String, String)> = raw.tag_pairs.into_iter().collect();
                    tags.sort();
                    out.push(Ok(Yielded { tags, moves: raw.moves.into_iter().map(|m| (m.mv, m.annotation)).collect() }));
                }
                Some(Err(e)) => {
                    out.push(Err(format!("{:?}", e)));
                }
            }
            if out.len() > horizon {
                out.push(Err("HORIZON: iterator does not terminate".to_string()));
                break;
            }
        }
        (out, Vec::new())
    })
}

/// like run_reader but also returns the sizes requested per read call
fn run_reader_logged(doc: &[u8], chunk: usize, deviations: &[(usize, usize)]) -> Result<(Vec<Result<Yielded, String>>, Vec<usize>), String> {
    // the parser owns the reader, so the log is recovered through a shared cell
    use std::cell::RefCell;
    use std::rc::Rc;
    struct Logged<'a> {
        inner: FragReader<'a>,
        log: Rc<RefCell<Vec<usize>>>,
    }
    impl<'a> Read for Logged<'a> {
        fn read(&mut self, buf: &mut [u8]) -> std::io::Result<usize> {
            self.log.borrow_mut().push(buf.len());
            self.inner.read(buf)
        }
    }
    guarded(|| {
        let log = Rc::new(RefCell::new(Vec::new()));
        let reader = Logged { inner: FragReader { data: doc, pos: 0, call: 0, deviations, calls_log: Vec::new() }, log: log.clone() };
        let mut parser = PgnRawParser::with_chunk_size(reader, chunk);
        let mut out = Vec::new();
        let horizon = doc.len() + 2;
        loop {
            match parser.next() {
                None => break,
                Some(Ok(raw)) => {
                    let mut tags: Vec<(String, String)> = raw.tag_pairs.into_iter().collect();
                    tags.sort();
                    out.push(Ok(Yielded { tags, moves: raw.moves.into_iter().map(|m| (m.mv, m.annotation)).collect() }));
                }
                Some(Err(e)) => out.push(Err(format!("{:?}", e))),
            }
            if out.len() > horizon {
                out.push(Err("HORIZON: iterator does not terminate".to_string()));
                break;
            }
        }
        drop(parser);
        let l = log.borrow().clone();
        (out, l)
    })
}

fn expected(games: &[&Game], annots: &[Vec<Option<String>>]) -> Vec<Yielded> {
    games
        .iter()
        .zip(annots.iter())
        .map(|(g, a)| {
            let mut tags = g.tags.clone();
            tags.sort();
            Yielded { tags, moves: g.sans.iter().cloned().zip(a.iter().cloned()).collect() }
        })
        .collect()
}

/// compare one run against the generator; returns a signature if it differs
fn compare(exp: &[Yielded], got: &[Result<Yielded, String>], games: &[&Game], comments: bool) -> Option<(String, Value)> {
    let n_ok = got.iter().filter(|g| g.is_ok()).count();
    for (i, e) in exp.iter().enumerate() {
        let last = i + 1 == exp.len();
        let pos = if last { "last_game" } else { "not_last_game" };
        match got.get(i) {
            None => return Some((format!("game_missing:{}", pos), json!({"game_index": i, "yielded": got.len()}))),
            Some(Err(err)) => {
                let variant: String = err.chars().take_while(|c| c.is_alphabetic()).collect();
                return Some((format!("error_item:{}:{}", variant, pos), json!({"game_index": i, "error": err})));
            }
            Some(Ok(y)) => {
                if y.tags != e.tags {
                    let lost = e.tags.len() as i64 - y.tags.len() as i64;
                    return Some((format!("tags_differ:lost{}:{}", lost, if i == 0 { "first_game" } else { "later_game" }), json!({"game_index": i, "expected": e.tags, "actual": y.tags})));
                }
                if y.moves != e.moves {
                    // describe the first divergence
                    let k = y.moves.iter().zip(e.moves.iter()).position(|(a, b)| a != b).unwrap_or(y.moves.len().min(e.moves.len()));
                    let what = if k >= y.moves.len() {
                        let tok = &e.moves[k].0;
                        let castle = tok.starts_with("O-O");
                        let numbered = k % 2 == 0 || comments;
                        format!("game_truncated:before_{}:{}", if castle { "castling_token" } else { "other_token" }, if numbered { "numbered" } else { "unnumbered" })
                    } else if k >= e.moves.len() {
                        "extra_moves".to_string()
                    } else if y.moves[k].0 != e.moves[k].0 {
                        "move_text_differs".to_string()
                    } else {
                        "annotation_differs".to_string()
                    };
                    let _ = games;
                    return Some((what, json!({"game_index": i, "first_difference_at_move": k, "expected": e.moves, "actual": y.moves})));
                }
            }
        }
    }
    if got.len() > exp.len() {
        return Some((format!("extra_items:{}", if got[exp.len()].is_ok() { "game" } else { "error" }), json!({"expected_games": exp.len(), "yielded": got.len(), "ok_items": n_ok, "extra": format!("{:?}", got[exp.len()])})));
    }
    None
}

fn replay_san(rep: &Reporter, doc: &str, games: &[&Game], got: &[Result<Yielded, String>]) {
    for (i, g) in games.iter().enumerate() {
        if let Some(Ok(y)) = got.get(i) {
            let r = guarded(|| {
                let mut b = Bitboard::default();
                for (mv, _) in &y.moves {
                    match b.pgn_to_bb(mv) {
                        Ok(m) => b.make(m),
                        Err(_) => return Err(format!("SAN {} rejected", mv)),
                    }
                }
                Ok(snap(&b).to_pos().to_fen())
            });
            match r {
                Ok(Ok(fen)) => {
                    if y.moves.len() == g.sans.len() && fen != g.final_fen {
                        rep.report("replay_final_position_differs".to_string(), json!({"kind": "pgn", "document": doc, "game_index": i, "expected": g.final_fen, "actual": fen}));
                    }
                }
                Ok(Err(e)) => rep.report("replay_san_rejected".to_string(), json!({"kind": "pgn", "document": doc, "game_index": i, "error": e})),
                Err(m) => rep.report(format!("panic:replay:{}", short(&m)), json!({"kind": "pgn", "document": doc, "game_index": i, "panic": m})),
            }
        }
    }
}

pub struct Doc {
    pub idx: Vec<usize>,
    pub comments: bool,
    pub ending: &'static str,
}

fn check_doc(rep: &Reporter, pool: &[Game], d: &Doc, dev_bound: usize, max_chunk_for_dev: usize, runs: &AtomicU64, outcomes: &std::sync::Mutex<std::collections::HashSet<String>>) {
    let games: Vec<&Game> = d.idx.iter().map(|&i| &pool[i]).collect();
    let (text, annots) = render(&games, d.comments, d.ending);
    let exp = expected(&games, &annots);
    let bytes = text.as_bytes();
    rep.sample(|| json!({"document": text, "chunk_sizes": format!("1..={}", bytes.len() + 1), "fragmentation_deviation_bound": dev_bound}));
    let case = |chunk: usize, dev: &[(usize, usize)], extra: Value| json!({"kind": "pgn", "document": text, "games": d.idx, "comments": d.comments, "ending": d.ending, "chunk_size": chunk, "fragmentation": dev, "detail": extra});
    let mut first_outcome: Option<Vec<Result<Yielded, String>>> = None;
    let mut local_runs = 0u64;
    let mut reported_for_doc: std::collections::HashSet<String> = std::collections::HashSet::new();
    for chunk in 1..=(bytes.len() + 1) {
        // default fragmentation
        let base = run_reader_logged(bytes, chunk, &[]);
        local_runs += 1;
        let (got, log) = match base {
            Ok(x) => x,
            Err(m) => {
                rep.report(format!("panic:{}", short(&m)), case(chunk, &[], json!({"panic": m})));
                continue;
            }
        };
        let mut judge = |got: &Vec<Result<Yielded, String>>, dev: &[(usize, usize)], reported: &mut std::collections::HashSet<String>| {
            if let Some((sig, detail)) = compare(&exp, got, &games, d.comments) {
                // one report per (document, signature): the explorer still runs every schedule
                if reported.insert(sig.clone()) {
                    rep.report(sig, case(chunk, dev, detail));
                }
            }
            match &first_outcome {
                None => first_outcome = Some(got.clone()),
                Some(f) => {
                    if f != got && reported.insert("chunking_dependent".to_string()) {
                        rep.report("result_depends_on_chunking".to_string(), case(chunk, dev, json!({"first_run": format!("{:?}", f).chars().take(400).collect::<String>(), "this_run": format!("{:?}", got).chars().take(400).collect::<String>()})));
                    }
                }
            }
        };
        judge(&got, &[], &mut reported_for_doc);
        if chunk == 1 {
            replay_san(rep, &text, &games, &got);
            outcomes.lock().unwrap().insert(format!("{:?}", got.iter().map(|g| g.as_ref().map(|y| y.moves.len()).map_err(|e| e.clone())).collect::<Vec<_>>()));
        }
        if dev_bound >= 1 && chunk <= max_chunk_for_dev && chunk >= 2 {
            // deviation: the i-th read returns k bytes (1 <= k < size requested)
            for (i, &req) in log.iter().enumerate() {
                for k in 1..req.min(chunk) {
                    let dev = [(i, k)];
                    match run_reader_logged(bytes, chunk, &dev) {
                        Ok((g1, log1)) => {
                            local_runs += 1;
                            judge(&g1, &dev, &mut reported_for_doc);
                            if dev_bound >= 2 {
                                for (j, &req2) in log1.iter().enumerate().skip(i + 1) {
                                    for k2 in 1..req2.min(chunk) {
                                        let dev2 = [(i, k), (j, k2)];
                                        match run_reader(bytes, chunk, &dev2) {
                                            Ok((g2, _)) => {
                                                local_runs += 1;
                                                judge(&g2, &dev2, &mut reported_for_doc);
                                            }
                                            Err(m) => rep.report(format!("panic:{}", short(&m)), case(chunk, &dev2, json!({"panic": m}))),
                                        }
                                    }
                                }
                            }
                        }
                        Err(m) => rep.report(format!("panic:{}", short(&m)), case(chunk, &dev, json!({"panic": m}))),
                    }
                }
            }
        }
    }
    runs.fetch_add(local_runs, Ordering::Relaxed);
}

pub fn docs(tier: Tier) -> Vec<Doc> {
    let mut v = Vec::new();
    let n = POOL.len() + 3;
    let endings: &[&'static str] = &["\n", "", "\n\n"];
    for comments in [false, true] {
        for &ending in endings {
            for a in 0..n {
                v.push(Doc { idx: vec![a], comments, ending });
                for b in 0..n {
                    v.push(Doc { idx: vec![a, b], comments, ending });
                    if tier == Tier::Thorough {
                        for c in 0..n {
                            v.push(Doc { idx: vec![a, b, c], comments, ending });
                        }
                    }
                }
            }
            if tier == Tier::Quick {
                // a slice of the triples
                for a in 0..n {
                    v.push(Doc { idx: vec![a, (a + 1) % n, (a + 3) % n], comments, ending });
                }
            }
        }
    }
    v
}

/// how a collection document is fed to the reader
#[derive(Clone, Debug)]
pub enum Feed {
    /// `PgnRawParser::new` (the default buffer size), reads filled completely
    Default,
    /// `with_chunk_size(n)`, reads filled completely
    Chunk(usize),
    /// `with_chunk_size(n)`, the i-th read returns at most pattern[i % len] bytes (0 = as many as asked)
    Pattern(usize, Vec<usize>),
}

struct PatternReader<'a> {
    data: &'a [u8],
    pos: usize,
    call: usize,
    pattern: Vec<usize>,
}

impl<'a> Read for PatternReader<'a> {
    fn read(&mut self, buf: &mut [u8]) -> std::io::Result<usize> {
        let mut n = buf.len().min(self.data.len() - self.pos);
        if !self.pattern.is_empty() {
            let k = self.pattern[self.call % self.pattern.len()];
            if k != 0 {
                n = n.min(k);
            }
        }
        buf[..n].copy_from_slice(&self.data[self.pos..self.pos + n]);
        self.pos += n;
        self.call += 1;
        Ok(n)
    }
}

fn make_parser<'a>(doc: &'a [u8], feed: &Feed) -> PgnRawParser<PatternReader<'a>> {
    match feed {
        Feed::Default => PgnRawParser::new(PatternReader { data: doc, pos: 0, call: 0, pattern: vec![] }),
        Feed::Chunk(n) => PgnRawParser::with_chunk_size(PatternReader { data: doc, pos: 0, call: 0, pattern: vec![] }, *n),
        Feed::Pattern(n, pat) => PgnRawParser::with_chunk_size(PatternReader { data: doc, pos: 0, call: 0, pattern: pat.clone() }, *n),
    }
}

fn to_yielded(item: Result<inkayaku_pgn::reader::PgnRaw, inkayaku_pgn::reader::PgnRawParserError>) -> Result<Yielded, String> {
    match item {
        Ok(raw) => {
            let mut tags: Vec<(String, String)> = raw.tag_pairs.into_iter().collect();
            tags.sort();
            Ok(Yielded { tags, moves: raw.moves.into_iter().map(|m| (m.mv, m.annotation)).collect() })
        }
        Err(e) => Err(format!("{:?}", e)),
    }
}

fn run_feed(doc: &[u8], feed: &Feed) -> Result<Vec<Result<Yielded, String>>, String> {
    guarded(|| {
        let mut parser = make_parser(doc, feed);
        let mut out = Vec::new();
        let horizon = doc.len() + 2;
        loop {
            match parser.next() {
                None => break,
                Some(item) => out.push(to_yielded(item)),
            }
            if out.len() > horizon {
                out.push(Err("HORIZON: iterator does not terminate".to_string()));
                break;
            }
        }
        out
    })
}

/// the reader is an Iterator: everything the trait offers on top of `next` (nth, skip, step_by,
/// count, last) must agree with plain iteration. Returns the first disagreement.
fn iterator_methods_agree(doc: &[u8], feed: &Feed, plain: &[Result<Yielded, String>]) -> Result<Option<String>, String> {
    guarded(|| {
        let n = plain.len();
        for k in 0..=n {
            let got = make_parser(doc, feed).nth(k).map(to_yielded);
            if got.as_ref() != plain.get(k) {
                return Some(format!("nth({}) differs from the {}th item of plain iteration", k, k));
            }
            let got = make_parser(doc, feed).skip(k).next().map(to_yielded);
            if got.as_ref() != plain.get(k) {
                return Some(format!("skip({}).next() differs from the {}th item of plain iteration", k, k));
            }
        }
        for step in [2usize, 3] {
            let got: Vec<Result<Yielded, String>> = make_parser(doc, feed).step_by(step).take(n + 2).map(to_yielded).collect();
            let want: Vec<Result<Yielded, String>> = plain.iter().step_by(step).cloned().collect();
            if got != want {
                return Some(format!("step_by({}) differs from every {}th item of plain iteration", step, step));
            }
        }
        if make_parser(doc, feed).count() != n {
            return Some("count() differs from the number of items of plain iteration".to_string());
        }
        if make_parser(doc, feed).last().map(to_yielded).as_ref() != plain.last() {
            return Some("last() differs from the last item of plain iteration".to_string());
        }
        // two readers advanced alternately with nth(1): state is per reader
        let mut a = make_parser(doc, feed);
        let mut i = 0usize;
        while let Some(item) = a.nth(1) {
            i += 2;
            if Some(&to_yielded(item)) != plain.get(i - 1) {
                return Some(format!("repeated nth(1): item {} differs", i - 1));
            }
            if i > n + 4 {
                return Some("repeated nth(1) does not terminate".to_string());
            }
        }
        None
    })
}

/// the pool plus one long game (castling by both sides, promotions, 200 plies) for collections
fn collection_pool() -> Vec<Game> {
    let mut v = pool();
    let mut p = Pos::startpos();
    let mut sans = Vec::new();
    let opening = ["e2e4", "e7e5", "g1f3", "b8c6", "f1c4", "f8c5", "e1g1", "g8f6", "d2d3", "d7d6", "c1g5", "c8g4", "b1c3", "d8d7", "d1d2", "e8c8", "h2h4", "h7h5", "a2a4", "a7a5"];
    let cycle = ["f1e1", "d8e8", "e1f1", "e8d8", "a1b1", "h8g8", "b1a1", "g8h8"];
    let mut i = 0;
    while sans.len() < 200 {
        let u = if sans.len() < opening.len() { opening[sans.len()] } else { cycle[{ i += 1; i - 1 } % cycle.len()] };
        let m = p.find_legal_uci(u).unwrap_or_else(|| panic!("collection game move {} illegal in {}", u, p.to_fen()));
        sans.push(san(&p, &m));
        p = p.make(&m);
    }
    v.push(Game { tags: vec![("Event".to_string(), "A long game".to_string()), ("Result".to_string(), "1/2-1/2".to_string()), ("Termination".to_string(), "Normal".to_string())], sans, result: "1/2-1/2", final_fen: p.to_fen() });
    v
}

fn collection_indices(n_games: usize, pool_len: usize) -> Vec<usize> {
    (0..n_games).map(|i| (i * 5 + i / 7) % pool_len).collect()
}

/// collections of many games ("any number of games"), fed through every entry point
fn check_collections(rep: &Reporter, tier: Tier, runs: &AtomicU64) -> Value {
    let cpool = collection_pool();
    let sizes: Vec<usize> = if tier == Tier::Quick { vec![1, 2, 3, 4, 5, 8, 13, 40, 150, 600] } else { vec![1, 2, 3, 4, 5, 8, 13, 40, 150, 600, 3000, 12_000] };
    let mut jobs: Vec<(usize, bool, &'static str)> = Vec::new();
    for &n in &sizes {
        for comments in [false, true] {
            for ending in ["\n", "", "\n\n"] {
                if n > 600 && (ending != "\n" || comments) {
                    continue;
                }
                jobs.push((n, comments, ending));
            }
        }
    }
    let bytes_total = AtomicU64::new(0);
    par_map_fine(&jobs, |&(n, comments, ending)| {
        let idx = collection_indices(n, cpool.len());
        let games: Vec<&Game> = idx.iter().map(|&i| &cpool[i]).collect();
        let (text, annots) = render(&games, comments, ending);
        let exp = expected(&games, &annots);
        let bytes = text.as_bytes();
        bytes_total.fetch_add(bytes.len() as u64, Ordering::Relaxed);
        let len = bytes.len();
        let mut feeds: Vec<Feed> = vec![Feed::Default];
        for c in [1usize, 2, 3, 5, 7, 64, 1000, 4096, 8191, 8192, 8193, 65_536, len.saturating_sub(1).max(1), len, len + 1] {
            if c == 1 && len > 2_000_000 {
                continue;
            }
            feeds.push(Feed::Chunk(c));
        }
        for c in [2usize, 3, 8, 8192] {
            for pat in [vec![1], vec![2], vec![3], vec![7], vec![0, 1], vec![0, 0, 2], vec![1, 0, 3, 0, 0]] {
                feeds.push(Feed::Pattern(c, pat));
            }
        }
        let mut first: Option<Vec<Result<Yielded, String>>> = None;
        let mut reported: std::collections::HashSet<String> = std::collections::HashSet::new();
        for feed in &feeds {
            runs.fetch_add(1, Ordering::Relaxed);
            let case = |extra: Value| json!({"kind": "pgn_collection", "games_in_document": n, "comments": comments, "ending": ending, "feed": format!("{:?}", feed), "document_bytes": len, "detail": extra});
            match run_feed(bytes, feed) {
                Err(m) => rep.report(format!("panic:{}", short(&m)), case(json!({"panic": m}))),
                Ok(got) => {
                    if let Some((sig, detail)) = compare(&exp, &got, &games, comments) {
                        if reported.insert(sig.clone()) {
                            rep.report(format!("collection:{}", sig), case(detail));
                        }
                    }
                    if n <= 40 && (matches!(feed, Feed::Default) || matches!(feed, Feed::Chunk(1) | Feed::Chunk(2) | Feed::Chunk(7) | Feed::Chunk(64)) || matches!(feed, Feed::Pattern(2, _))) {
                        match iterator_methods_agree(bytes, feed, &got) {
                            Ok(None) => {}
                            Ok(Some(what)) => {
                                if reported.insert("iterator".to_string()) {
                                    rep.report(format!("collection:iterator_method_differs:{}", what.split('(').next().unwrap_or("").trim()), case(json!({"what": what})));
                                }
                            }
                            Err(m) => rep.report(format!("panic:{}", short(&m)), case(json!({"panic": m}))),
                        }
                    }
                    match &first {
                        None => {
                            if n <= 40 {
                                replay_san(rep, &text, &games, &got);
                            }
                            first = Some(got);
                        }
                        Some(f) => {
                            if *f != got && reported.insert("chunking".to_string()) {
                                rep.report("collection:result_depends_on_chunking".to_string(), case(json!({"games_yielded_first_run": f.len(), "games_yielded_this_run": got.len()})));
                            }
                        }
                    }
                }
            }
        }
    });
    json!({"collection_sizes_in_games": sizes, "documents": jobs.len(), "bytes_of_all_documents": bytes_total.load(Ordering::Relaxed), "feeds_per_document": "PgnRawParser::new (default buffer), 15 chunk sizes incl. 8191/8192/8193/65536/len-1/len/len+1, 4 chunk sizes x 7 periodic short-read patterns"})
}

/// comments of every length: a four-ply game whose first two comments have texts of lengths a and b
/// (every pair up to 30 x 30; Lichess writes `{ [%eval 0.17] [%clk 0:00:30] }` as well as bare
/// clocks, and annotators write anything), the other two a clock comment and a one-character one;
/// each document through the default buffer and a handful of chunk sizes
fn check_comment_lengths(rep: &Reporter, tier: Tier, runs: &AtomicU64) -> Value {
    let pool = pool();
    let g = &pool[0];
    let text = |n: usize, salt: usize| -> String {
        // blanks, brackets, digits, percent signs and colons, as in real comments; never a brace
        let alphabet: Vec<char> = " [%eval 0.17] [%clk 0:00:3] ?!+-#=abcXYZ".chars().collect();
        (0..n).map(|i| if i == 0 || i + 1 == n { ' ' } else { alphabet[(i * 7 + salt) % alphabet.len()] }).collect()
    };
    let max = if tier == Tier::Quick { 30 } else { 60 };
    let pairs: Vec<(usize, usize)> = (1..=max).flat_map(|a| (1..=max).map(move |b| (a, b))).collect();
    par_map(&pairs, |&(a, b)| {
        let comments = [text(a, 3), text(b, 11), clk(2), "!".to_string()];
        let mut s = String::new();
        for (k, v) in &g.tags {
            s.push_str(&format!("[{} \"{}\"]\n", k, v));
        }
        s.push('\n');
        let mut annots = Vec::new();
        for (i, mv) in g.sans.iter().take(4).enumerate() {
            if i % 2 == 0 {
                s.push_str(&format!("{}. ", i / 2 + 1));
            } else {
                s.push_str(&format!("{}... ", i / 2 + 1));
            }
            s.push_str(mv);
            s.push(' ');
            s.push_str(&format!("{{{}}} ", comments[i]));
            annots.push((mv.clone(), Some(comments[i].clone())));
        }
        s.push_str("1-0\n");
        let mut tags = g.tags.clone();
        tags.sort();
        let exp = vec![Yielded { tags, moves: annots }];
        let bytes = s.as_bytes();
        let mut first: Option<Vec<Result<Yielded, String>>> = None;
        for feed in [Feed::Default, Feed::Chunk(1), Feed::Chunk(5), Feed::Chunk(19), Feed::Chunk(22), Feed::Chunk(64), Feed::Chunk(bytes.len()), Feed::Pattern(32, vec![0, 3])] {
            runs.fetch_add(1, Ordering::Relaxed);
            let case = |extra: Value| json!({"kind": "pgn_comment_lengths", "document": s, "comment_lengths": [a, b], "feed": format!("{:?}", feed), "detail": extra});
            match run_feed(bytes, &feed) {
                Err(m) => rep.report(format!("panic:{}", short(&m)), case(json!({"panic": m}))),
                Ok(got) => {
                    let games: Vec<&Game> = vec![g];
                    if let Some((sig, detail)) = compare(&exp, &got, &games, true) {
                        rep.report(format!("comment_lengths:{}", sig), case(detail));
                        break;
                    }
                    match &first {
                        None => first = Some(got),
                        Some(f) => {
                            if *f != got {
                                rep.report("comment_lengths:result_depends_on_chunking".to_string(), case(json!({})));
                                break;
                            }
                        }
                    }
                }
            }
        }
    });
    json!({"documents": pairs.len(), "comment_lengths": format!("1..={} x 1..={}", max, max), "feeds_per_document": 8})
}

pub fn run(tier: Tier) -> i32 {
    let started = Instant::now();
    let rep = Reporter::new("C17");
    let pool = pool();
    let ds = docs(tier);
    let runs = AtomicU64::new(0);
    let outcomes = std::sync::Mutex::new(std::collections::HashSet::new());
    let idx: Vec<usize> = (0..ds.len()).collect();
    par_map(&idx, |&i| {
        let d = &ds[i];
        // deviation bound: 1 for single games and pairs (quick: chunk sizes <= 16), 2 for single
        // games in thorough runs with chunk sizes <= 6
        let (bound, max_chunk) = match (tier, d.idx.len()) {
            (Tier::Quick, 1) => (2, 5),
            (Tier::Quick, 2) => (1, 4),
            (Tier::Quick, _) => (0, 0),
            (Tier::Thorough, 1) => (2, 6),
            (Tier::Thorough, 2) => (1, 32),
            (Tier::Thorough, _) => (1, 3),
        };
        check_doc(&rep, &pool, d, bound, max_chunk, &runs, &outcomes);
        if d.idx.len() == 1 {
            // bound 1 over every chunk size (quick: up to 16) for single games
            check_doc(&rep, &pool, d, 1, if tier == Tier::Quick { 16 } else { usize::MAX }, &runs, &outcomes);
        }
        if d.idx.len() == 2 && !d.comments {
            // bound 2 on two-game documents at the smallest chunk sizes: state carried over three reads
            check_doc(&rep, &pool, d, 2, if tier == Tier::Quick { 3 } else { 5 }, &runs, &outcomes);
        }
    });
    let comment_lengths = check_comment_lengths(&rep, tier, &runs);
    let t_coll = Instant::now();
    let coll = check_collections(&rep, tier, &runs);
    let coll_secs = t_coll.elapsed().as_secs_f64();
    let mut cov = Coverage::new();
    cov.states = ds.len() as u64;
    cov.transitions = runs.load(Ordering::Relaxed);
    cov.set("collections", coll);
    cov.set("comment_length_lattice", comment_lengths);
    cov.set("collections_secs", json!(coll_secs));
    cov.traces_validated = cov.transitions;
    cov.set("documents", json!(ds.len()));
    cov.set("reader_runs", json!(runs.load(Ordering::Relaxed)));
    cov.set("distinct_observed_outcomes", json!(outcomes.lock().unwrap().len()));
    cov.set("pool_games", json!(pool.iter().map(|g| json!({"sans": g.sans, "result": g.result, "tags": g.tags.len()})).collect::<Vec<_>>()));
    cov.set("explanation", json!("every chunk size 1..len+1 for every document; read fragmentation enumerated with deviation bound 0/1/2 as stated per document class; each run compared with the generator and with the first run of the same document"));
    let (sample, _) = render(&[&pool[2], &pool[5]], true, "\n");
    cov.samples = vec![json!({"document": sample, "chunk_sizes": "1..len+1", "fragmentation": [[3, 1]]})];
    cov.assumptions = vec!["Lichess export layout: tag lines, blank line, one movetext line, blank line between games".into()];
    finish(&rep, tier, cov, started)
}

pub fn replay(case: &Value) -> i32 {
    let started = Instant::now();
    let rep = Reporter::new("C17");
    let pool = pool();
    let ending: &'static str = match case["ending"].as_str().unwrap_or("\n") {
        "" => "",
        "\n\n" => "\n\n",
        _ => "\n",
    };
    if case["kind"] == "pgn_comment_lengths" {
        let text = case["document"].as_str().unwrap_or("").to_string();
        let f = case["feed"].as_str().unwrap_or("Default");
        let nums: Vec<usize> = f.split(|c: char| !c.is_ascii_digit()).filter(|t| !t.is_empty()).filter_map(|t| t.parse().ok()).collect();
        let feed = if f.starts_with("Chunk") { Feed::Chunk(nums[0]) } else if f.starts_with("Pattern") { Feed::Pattern(nums[0], nums[1..].to_vec()) } else { Feed::Default };
        // the reference for a free-standing document: the reader fed one byte at a time
        match (run_feed(text.as_bytes(), &feed), run_feed(text.as_bytes(), &Feed::Chunk(1))) {
            (Ok(g1), Ok(g2)) => {
                println!("through {:?}: {:?}\none byte at a time: {:?}", feed, g1, g2);
                if g1 != g2 {
                    rep.report("comment_lengths:result_depends_on_chunking".to_string(), json!({"kind": "pgn_comment_lengths", "document": text, "feed": f}));
                }
            }
            (Err(m), _) | (_, Err(m)) => rep.report(format!("panic:{}", short(&m)), json!({"kind": "pgn_comment_lengths", "document": text, "panic": m})),
        }
        println!("replay: {} violating case(s) reproduced", rep.violation_count());
        let mut cov = Coverage::new();
        cov.states = 1;
        return finish(&rep, Tier::Quick, cov, started);
    }
    if case["kind"] == "pgn_collection" {
        let cpool = collection_pool();
        let n = case["games_in_document"].as_u64().unwrap_or(1) as usize;
        let comments = case["comments"].as_bool().unwrap_or(false);
        let idx = collection_indices(n, cpool.len());
        let games: Vec<&Game> = idx.iter().map(|&i| &cpool[i]).collect();
        let (text, annots) = render(&games, comments, ending);
        let exp = expected(&games, &annots);
        let f = case["feed"].as_str().unwrap_or("Default");
        let nums: Vec<usize> = f.split(|c: char| !c.is_ascii_digit()).filter(|t| !t.is_empty()).filter_map(|t| t.parse().ok()).collect();
        let feed = if f.starts_with("Chunk") { Feed::Chunk(nums[0]) } else if f.starts_with("Pattern") { Feed::Pattern(nums[0], nums[1..].to_vec()) } else { Feed::Default };
        match (run_feed(text.as_bytes(), &feed), run_feed(text.as_bytes(), &feed)) {
            (Ok(g1), Ok(g2)) => {
                if g1 != g2 {
                    eprintln!("MACHINERY: two replays of the same feed differ");
                    return 2;
                }
                println!("{} games in the document, {} items yielded through {:?}", n, g1.len(), feed);
                if let Some((sig, detail)) = compare(&exp, &g1, &games, comments) {
                    rep.report(format!("collection:{}", sig), json!({"kind": "pgn_collection", "games_in_document": n, "comments": comments, "ending": ending, "feed": f, "detail": detail}));
                }
                if let Ok(base) = run_feed(text.as_bytes(), &Feed::Default) {
                    if base != g1 {
                        rep.report("collection:result_depends_on_chunking".to_string(), json!({"kind": "pgn_collection", "games_in_document": n, "comments": comments, "ending": ending, "feed": f}));
                    }
                }
            }
            (Err(m), _) | (_, Err(m)) => rep.report(format!("panic:{}", short(&m)), json!({"kind": "pgn_collection", "games_in_document": n, "panic": m})),
        }
        println!("replay: {} violating case(s) reproduced", rep.violation_count());
        let mut cov = Coverage::new();
        cov.states = 1;
        return finish(&rep, Tier::Quick, cov, started);
    }
    let idx: Vec<usize> = case["games"].as_array().map(|a| a.iter().map(|v| v.as_u64().unwrap_or(0) as usize).collect()).unwrap_or_default();
    let d = Doc { idx, comments: case["comments"].as_bool().unwrap_or(false), ending };
    let games: Vec<&Game> = d.idx.iter().map(|&i| &pool[i]).collect();
    let (text, annots) = render(&games, d.comments, d.ending);
    let exp = expected(&games, &annots);
    let chunk = case["chunk_size"].as_u64().unwrap_or(1) as usize;
    let dev: Vec<(usize, usize)> = case["fragmentation"].as_array().map(|a| a.iter().map(|p| (p[0].as_u64().unwrap_or(0) as usize, p[1].as_u64().unwrap_or(1) as usize)).collect()).unwrap_or_default();
    // replay twice: identical observations required before a failure is believed
    let r1 = run_reader(text.as_bytes(), chunk, &dev);
    let r2 = run_reader(text.as_bytes(), chunk, &dev);
    match (r1, r2) {
        (Ok((g1, _)), Ok((g2, _))) => {
            if g1 != g2 {
                eprintln!("MACHINERY: two replays of the same schedule differ");
                return 2;
            }
            println!("expected: {:?}", exp);
            println!("actual:   {:?}", g1);
            if let Some((sig, detail)) = compare(&exp, &g1, &games, d.comments) {
                rep.report(sig, json!({"kind": "pgn", "document": text, "games": d.idx, "comments": d.comments, "ending": d.ending, "chunk_size": chunk, "fragmentation": dev, "detail": detail}));
            }
            replay_san(&rep, &text, &games, &g1);
        }
        (Err(m), _) | (_, Err(m)) => rep.report(format!("panic:{}", short(&m)), json!({"kind": "pgn", "document": text, "panic": m})),
    }
    println!("replay: {} violating case(s) reproduced", rep.violation_count());
    let mut cov = Coverage::new();
    cov.states = 1;
    finish(&rep, Tier::Quick, cov, started)
}
