//! C18 — the keyed table behind the transposition table is a bounded FIFO map.
//! Explicit-state exploration (stateright, BFS) of the REAL table: a state is the table rebuilt
//! by replaying the operation history, deduplicated on the implementation's own full state.

#![allow(dead_code)]

use crate::common::*;
use serde_json::{json, Value};
use std::collections::VecDeque;
use std::hash::{Hash, Hasher};
use std::sync::atomic::AtomicU64;
use std::time::Instant;

#[derive(Clone, Copy, Debug, PartialEq, Eq, Hash)]
pub enum Op {
    Put(u64, u64),
    Get(u64),
    Clear,
}

/// reference model: a FIFO-evicting map, as boring as possible
#[derive(Clone, Debug, PartialEq, Eq, Default)]
pub struct RefTable {
    pub cap: usize,
    pub order: VecDeque<u64>,
    pub vals: Vec<(u64, u64)>,
}

impl RefTable {
    pub fn get(&self, k: u64) -> Option<u64> {
        self.vals.iter().find(|(kk, _)| *kk == k).map(|(_, v)| *v)
    }
    pub fn put(&mut self, k: u64, v: u64) {
        if let Some(e) = self.vals.iter_mut().find(|(kk, _)| *kk == k) {
            e.1 = v; // re-insertion of a present key keeps its age
            return;
        }
        self.vals.push((k, v));
        self.order.push_back(k);
        if self.vals.len() > self.cap {
            let old = self.order.pop_front().unwrap();
            self.vals.retain(|(kk, _)| *kk != old);
        }
    }
    pub fn clear(&mut self) {
        self.order.clear();
        self.vals.clear();
    }
}

#[cfg(inkayaku_verif)]
mod imp {
    use super::*;
    use inkayaku_engine_core::verif::Table;
    use stateright::{Checker, Model, Property};

    #[derive(Clone, Debug)]
    pub struct St {
        pub hist: Vec<Op>,
        pub snap: (Vec<u64>, Vec<(u64, u64)>),
        pub problem: Option<String>,
    }
    impl PartialEq for St {
        fn eq(&self, o: &Self) -> bool {
            self.snap == o.snap && self.problem.is_some() == o.problem.is_some()
        }
    }
    impl Eq for St {}
    impl Hash for St {
        fn hash<H: Hasher>(&self, h: &mut H) {
            self.snap.hash(h);
            self.problem.is_some().hash(h);
        }
    }

    static SAMPLES: std::sync::Mutex<Vec<Value>> = std::sync::Mutex::new(Vec::new());

    pub struct TableModel {
        pub cap: usize,
        pub keys: Vec<u64>,
        pub vals: Vec<u64>,
    }

    /// replay a history on a fresh real table and on the reference; returns the real table, the
    /// reference and the first disagreement of a *return value* (judged on the last op only by
    /// the caller, earlier ops were judged when their state was generated)
    pub fn replay(cap: usize, hist: &[Op]) -> (Table, RefTable, Vec<Option<String>>) {
        let mut t = Table::new(cap);
        let mut r = RefTable { cap, ..Default::default() };
        let mut notes = Vec::new();
        for op in hist {
            let mut note = None;
            match *op {
                Op::Put(k, v) => {
                    t.put(k, v);
                    r.put(k, v);
                }
                Op::Get(k) => {
                    let a = t.get(k);
                    let e = r.get(k);
                    if a != e {
                        note = Some(format!("get({}) returned {:?}, reference {:?}", k, a, e));
                    }
                }
                Op::Clear => {
                    t.clear();
                    r.clear();
                }
            }
            notes.push(note);
        }
        (t, r, notes)
    }

    /// per-state invariant on the real object vs the reference
    pub fn invariant(cap: usize, t: &Table, r: &RefTable, universe: &[u64]) -> Option<String> {
        let (list, map) = t.snapshot();
        if t.len() != map.len() {
            return Some(format!("len() = {} but {} entries stored", t.len(), map.len()));
        }
        if t.len() > cap {
            return Some(format!("size_exceeds_capacity: {} entries, capacity {}", t.len(), cap));
        }
        let lf = t.load_factor();
        let want = t.len() as f32 / cap as f32;
        if (lf - want).abs() > 1e-6 {
            return Some(format!("load_factor {} but {}/{}", lf, t.len(), cap));
        }
        for &k in universe {
            let (a, e) = (t.get(k), r.get(k));
            if a != e {
                return Some(format!("lookup_differs: get({}) = {:?}, reference {:?}", k, a, e));
            }
        }
        let mut lk: Vec<u64> = list.clone();
        lk.sort();
        if lk.windows(2).any(|w| w[0] == w[1]) {
            return Some(format!("queue_has_duplicates: {:?}", list));
        }
        let mk: Vec<u64> = map.iter().map(|e| e.0).collect();
        if lk != mk {
            return Some(format!("queue_and_map_out_of_step: queue {:?} map keys {:?}", list, mk));
        }
        let ro: Vec<u64> = r.order.iter().copied().collect();
        if list != ro {
            return Some(format!("eviction_order_differs: queue {:?}, reference {:?}", list, ro));
        }
        None
    }

    impl Model for TableModel {
        type State = St;
        type Action = Op;
        fn init_states(&self) -> Vec<St> {
            let t = Table::new(self.cap);
            vec![St { hist: vec![], snap: t.snapshot(), problem: None }]
        }
        fn actions(&self, s: &St, out: &mut Vec<Op>) {
            if s.problem.is_some() {
                return;
            }
            for &k in &self.keys {
                for &v in &self.vals {
                    out.push(Op::Put(k, v));
                }
                out.push(Op::Get(k));
            }
            out.push(Op::Clear);
        }
        fn next_state(&self, s: &St, a: Op) -> Option<St> {
            let mut hist = s.hist.clone();
            hist.push(a);
            let r = guarded(|| {
                let (t, r, notes) = replay(self.cap, &hist);
                let problem = notes.last().cloned().flatten().or_else(|| invariant(self.cap, &t, &r, &self.keys));
                (t.snapshot(), problem)
            });
            match r {
                Ok((snap, problem)) => {
                    if hist.len() >= 3 {
                        let mut v = SAMPLES.lock().unwrap();
                        if v.len() < 4 {
                            v.push(json!({"capacity": self.cap, "history": ops_json(&hist), "queue": snap.0, "map": snap.1}));
                        }
                    }
                    Some(St { hist, snap, problem })
                }
                Err(m) => Some(St { hist, snap: (vec![], vec![]), problem: Some(format!("panic: {}", m)) }),
            }
        }
        fn properties(&self) -> Vec<Property<Self>> {
            vec![Property::<Self>::always("table agrees with the FIFO reference", |_, s: &St| s.problem.is_none())]
        }
    }

    type LineShape = (usize, i32, u8, Vec<(i32, Option<u64>)>);
    const LINE_KEYS: [u64; 2] = [0x9E37_79B9_7F4A_7C15, 2];
    /// (depth, value, bound type, [(value, move bits) per ply]): the product of two depths, two values,
    /// the three bound types and three lines (a bare leaf, a line of three plies with moves, a line of
    /// one ply with another move) — 36 shapes, so that two stores under one key can agree in any subset
    /// of the fields and differ in the rest
    fn line_shapes() -> Vec<LineShape> {
        let (m1, m2, m3) = (0x0000_0000_0012_3456u64, 0x0000_00ff_0065_4321u64, 0x7000_0000_0000_0001u64);
        let mut v = Vec::new();
        for depth in [1usize, 4] {
            for value in [10i32, -5] {
                for bound in 0..3u8 {
                    for line in 0..3 {
                        let l = match line {
                            0 => vec![(value, None)],
                            1 => vec![(value, Some(m1)), (-value, Some(m2)), (value, None)],
                            _ => vec![(value + 1, Some(m3))],
                        };
                        v.push((depth, value, bound, l));
                    }
                }
            }
        }
        v
    }
    fn line_ops_text(hist: &[usize]) -> Vec<String> {
        let n = line_shapes().len();
        hist.iter().map(|&op| if op == LINE_KEYS.len() * n { "clear".to_string() } else { format!("put(key{}, shape{})", op / n, op % n) }).collect()
    }
    /// op code: key index * shapes + shape index; keys * shapes = clear. The table is cleared first.
    fn line_history_problem(t: &mut inkayaku_engine_core::verif::SearchTable, hist: &[usize]) -> Option<String> {
        let shapes = line_shapes();
        let clear_op = LINE_KEYS.len() * shapes.len();
        t.clear();
        let mut want: [Option<usize>; 2] = [None, None];
        for &op in hist {
            if op >= clear_op {
                t.clear();
                want = [None, None];
            } else {
                let (ki, si) = (op / shapes.len(), op % shapes.len());
                let sh = &shapes[si];
                t.put_line(LINE_KEYS[ki], sh.0, sh.1, sh.2, &sh.3);
                want[ki] = Some(si);
            }
        }
        for ki in 0..LINE_KEYS.len() {
            let got = t.get_line(LINE_KEYS[ki]);
            let exp = want[ki].map(|si| (shapes[si].0, shapes[si].1, shapes[si].2, shapes[si].3.clone(), LINE_KEYS[ki]));
            if got != exp {
                return Some(format!("lookup_differs_line: get({:#x}) = {:?}, stored last: {:?} ((depth, value, bound, [(value, move bits) per ply], key))", LINE_KEYS[ki], got, exp));
            }
        }
        let n_want = want.iter().filter(|w| w.is_some()).count();
        if t.len() != n_want {
            return Some(format!("len() = {} but {} entries stored", t.len(), n_want));
        }
        None
    }

    fn sig_of(problem: &str) -> String {
        problem.split(|c| c == ':' || c == ' ').next().unwrap_or("problem").to_string()
    }

    pub fn run(tier: Tier) -> i32 {
        let started = Instant::now();
        let rep = Reporter::new("C18");
        let mut per_cap = Vec::new();
        let mut states = 0u64;
        let mut transitions = 0u64;
        let caps: &[usize] = if tier == Tier::Quick { &[1, 2, 3] } else { &[1, 2, 3, 4] };
        for &cap in caps {
            let keys: Vec<u64> = (0..(cap as u64 + 2)).collect();
            let mut counts = Vec::new();
            // two runs, counts compared (determinism of the model)
            for run in 0..2 {
                let model = TableModel { cap, keys: keys.clone(), vals: vec![0, 1] };
                let checker = model.checker().threads(if run == 0 { 1 } else { n_threads().min(8) }).spawn_bfs().join();
                let unique = checker.unique_state_count();
                let total = checker.state_count();
                let depth = checker.max_depth();
                counts.push((unique, total, depth));
                if run == 0 {
                    for (name, path) in checker.discoveries() {
                        let last = path.last_state().clone();
                        let problem = last.problem.clone().unwrap_or_default();
                        rep.report(format!("{}:cap{}", sig_of(&problem), cap), json!({"kind": "table_history", "capacity": cap, "history": format!("{:?}", last.hist), "ops": ops_json(&last.hist), "problem": problem, "property": name}));
                    }
                    states += unique as u64;
                    transitions += total as u64;
                }
            }
            if counts[0].0 != counts[1].0 {
                rep.machinery(format!("state counts differ between two runs for capacity {}: {:?}", cap, counts));
            }
            per_cap.push(json!({"capacity": cap, "keys": keys, "values": [0, 1], "unique_states": counts[0].0, "states_generated": counts[0].1, "max_depth": counts[0].2, "second_run_unique_states": counts[1].0}));
        }
        // unrolled histories without deduplication on the real object
        let (ucap, udepth) = if tier == Tier::Quick { (2usize, 6usize) } else { (2usize, 7usize) };
        let t0 = Instant::now();
        let ukeys: Vec<u64> = (0..(ucap as u64 + 2)).collect();
        let mut menu: Vec<Op> = Vec::new();
        for &k in &ukeys {
            menu.push(Op::Put(k, 0));
            menu.push(Op::Put(k, 1));
            menu.push(Op::Get(k));
        }
        menu.push(Op::Clear);
        let firsts: Vec<usize> = (0..menu.len() * menu.len()).collect();
        let seqs = std::sync::atomic::AtomicU64::new(0);
        par_map(&firsts, |&f| {
            let mut hist = vec![menu[f / menu.len()], menu[f % menu.len()]];
            let mut n = 0u64;
            unroll(&rep, ucap, &ukeys, &menu, &mut hist, udepth, &mut n);
            seqs.fetch_add(n, std::sync::atomic::Ordering::Relaxed);
        });
        let unrolled = seqs.load(std::sync::atomic::Ordering::Relaxed);
        // capacity sweep: the canonical fill-and-overflow history on capacities of every magnitude
        // (a bound that only bites above some size is invisible to the small exhaustive models)
        let t1 = Instant::now();
        let mut caps_swept: Vec<usize> = vec![1, 2, 3, 4, 7, 8, 9, 100, 1000, 65_535, 65_536, 65_537, 1 << 20, (1 << 20) + 1, 3_000_000];
        if tier == Tier::Thorough {
            caps_swept.extend([(1 << 24) - 1, 1 << 24, 10_000_000, 20_000_001]);
        }
        let sweep_ops = AtomicU64::new(0);
        par_map_fine(&caps_swept, |&cap| {
            let r = guarded(|| sweep_problems(cap));
            sweep_ops.fetch_add((2 * (cap + 5)) as u64, std::sync::atomic::Ordering::Relaxed);
            match r {
                Ok(problems) => {
                    for pr in problems {
                        let mag = if cap > (1 << 20) { "above_2^20" } else if cap > 65_536 { "above_2^16" } else { "small" };
                        rep.report(format!("capacity_sweep:{}:{}", pr.split(' ').take(2).collect::<Vec<_>>().join("_"), mag), json!({"kind": "capacity_sweep", "capacity": cap, "problem": pr}));
                    }
                }
                Err(m) => rep.report("panic:capacity_sweep".to_string(), json!({"kind": "capacity_sweep", "capacity": cap, "panic": m})),
            }
        });
        // the table as the search holds it (its own `state.transposition_table`, through the
        // TranspositionTable trait): every operation sequence up to depth 5 (6) over 3 keys x 3 entry
        // shapes (different search depths, values, bound types) + lookups + clear, observable state
        // compared with the reference after every operation. Its capacity is the product's (10^7), so
        // this half is about store / overwrite / lookup / clear, the eviction half is above.
        let t3 = Instant::now();
        let wrapper_steps = AtomicU64::new(0);
        {
            use inkayaku_engine_core::verif::SearchTable;
            let keys: [u64; 3] = [0x9E37_79B9_7F4A_7C15, 1, u64::MAX];
            // (depth, value, node type, value of the stored line) packed into the reference's u64
            let shapes: [(usize, i32, u8, i32); 3] = [(1, 10, 0, 11), (5, -20, 1, -7), (3, 30, 2, 300)];
            let pack = |s: (usize, i32, u8, i32)| -> u64 { ((s.0 as u64) << 56) | ((((s.1 as i16) as u16) as u64) << 40) | ((s.2 as u64) << 32) | ((s.3 as u32) as u64) };
            let mut menu: Vec<Op> = Vec::new();
            for &k in &keys {
                for &sh in &shapes {
                    menu.push(Op::Put(k, pack(sh)));
                }
                menu.push(Op::Get(k));
            }
            menu.push(Op::Clear);
            let depth = if tier == Tier::Quick { 5 } else { 6 };
            let firsts: Vec<usize> = (0..menu.len()).collect();
            par_map(&firsts, |&f| {
                let mut t = SearchTable::new();
                let cap = 10_000_000usize;
                // iterative DFS over op sequences; the table is rebuilt by replay after each backtrack
                fn apply(t: &mut SearchTable, r: &mut RefTable, op: Op) {
                    match op {
                        Op::Put(k, v) => {
                            t.put(k, (v >> 56) as usize, ((v >> 40) & 0xffff) as u16 as i16 as i32, ((v >> 32) & 0xff) as u8, (v & 0xffff_ffff) as u32 as i32);
                            r.put(k, v);
                        }
                        Op::Get(_) => {}
                        Op::Clear => {
                            t.clear();
                            r.clear();
                        }
                    }
                }
                let mut stack: Vec<Vec<Op>> = vec![vec![menu[f]]];
                while let Some(hist) = stack.pop() {
                    t.clear();
                    let mut r = RefTable { cap, ..Default::default() };
                    for &op in &hist {
                        apply(&mut t, &mut r, op);
                    }
                    wrapper_steps.fetch_add(1, std::sync::atomic::Ordering::Relaxed);
                    // observable state after the last operation
                    let mut problem: Option<String> = None;
                    for &k in &keys {
                        let raw = t.get(k);
                        let got = raw.map(|(d, v, n, lv, _)| ((d as u64) << 56) | ((((v as i16) as u16) as u64) << 40) | ((n as u64) << 32) | ((lv as u32) as u64));
                        let want = r.get(k);
                        if got != want {
                            problem = Some(format!("lookup_differs: get({:#x}) = {:?}, reference {:?} (depth<<56 | value<<40 | bound<<32 | value of the stored line)", k, got, want));
                            break;
                        }
                        if let Some((_, _, _, _, stored_key)) = raw {
                            if stored_key != k {
                                problem = Some(format!("lookup_differs: get({:#x}) returned an entry stored for key {:#x}", k, stored_key));
                                break;
                            }
                        }
                    }
                    if problem.is_none() && t.len() != r.vals.len() {
                        problem = Some(format!("len() = {} but {} entries stored", t.len(), r.vals.len()));
                    }
                    if problem.is_none() {
                        let want = r.vals.len() as f32 / cap as f32;
                        if (t.load_factor() - want).abs() > want * 1e-5 + 1e-12 {
                            problem = Some(format!("load_factor {:e} but {} entries of {}", t.load_factor(), r.vals.len(), cap));
                        }
                    }
                    if let Some(pr) = problem {
                        rep.report(format!("search_table:{}", sig_of(&pr)), json!({"kind": "search_table_history", "ops": ops_json(&hist), "problem": pr}));
                        continue; // do not extend a history that already failed
                    }
                    if hist.len() < depth {
                        for &op in &menu {
                            // a lookup changes nothing: only as the last operation
                            if matches!(hist.last(), Some(Op::Get(_))) {
                                continue;
                            }
                            let mut h = hist.clone();
                            h.push(op);
                            stack.push(h);
                        }
                    }
                }
            });
        }
        // the same object with entries that carry whole LINES (a value and a move per ply, as the search
        // stores them): every operation sequence up to depth 3 (4) over 2 keys x 36 entry shapes — two
        // depths x two values x three bound types x three lines — + clear; after
        // every operation each key must give back exactly the entry stored last under it, line included
        // (the search plays the stored line's move and returns its value on a table hit)
        let line_steps = AtomicU64::new(0);
        {
            use inkayaku_engine_core::verif::SearchTable;
            let n_ops = LINE_KEYS.len() * line_shapes().len() + 1;
            let depth = if tier == Tier::Quick { 3 } else { 4 };
            let firsts: Vec<usize> = (0..n_ops).collect();
            par_map(&firsts, |&f| {
                let mut t = SearchTable::new();
                let mut stack: Vec<Vec<usize>> = vec![vec![f]];
                while let Some(hist) = stack.pop() {
                    line_steps.fetch_add(1, std::sync::atomic::Ordering::Relaxed);
                    if let Some(pr) = line_history_problem(&mut t, &hist) {
                        rep.report(format!("search_table_lines:{}", sig_of(&pr)), json!({"kind": "search_table_line_history", "op_codes": hist, "ops": line_ops_text(&hist), "problem": pr}));
                        continue;
                    }
                    if hist.len() < depth {
                        for op in 0..n_ops {
                            let mut h = hist.clone();
                            h.push(op);
                            stack.push(h);
                        }
                    }
                }
            });
        }
        // clear-count sweep: a key stored once, then N clears each preceded by a store of another key
        // (so that every clear has something to clear), N at every magnitude up to 2^17+1; afterwards
        // the first key must be gone, the table empty, and a fresh store must work
        {
            use inkayaku_engine_core::verif::SearchTable;
            let mut counts: Vec<u64> = vec![1, 2, 3];
            for k in 3..=17u32 {
                counts.extend([(1u64 << k) - 1, 1 << k, (1 << k) + 1]);
            }
            par_map_fine(&counts, |&n| {
                let r = guarded(|| {
                    let mut problems: Vec<String> = Vec::new();
                    let mut t = SearchTable::new();
                    let mut bare = Table::new(8);
                    t.put(0xABCDEF, 7, 123, 0, -5);
                    bare.put(0xABCDEF, 77);
                    for i in 0..n {
                        t.put(1_000_000 + i, 1, i as i32, 1, 0);
                        t.clear();
                        bare.put(1_000_000 + i, i);
                        bare.clear();
                    }
                    if let Some(e) = t.get(0xABCDEF) {
                        problems.push(format!("search table: a key stored before {} clears is returned again: {:?}", n, e));
                    }
                    if t.len() != 0 {
                        problems.push(format!("search table: len() = {} after {} clears", t.len(), n));
                    }
                    if bare.get(0xABCDEF).is_some() || bare.len() != 0 {
                        problems.push(format!("keyed table: not empty after {} clears", n));
                    }
                    t.put(0xABCDEF, 2, 9, 2, 1);
                    if t.get(0xABCDEF).map(|e| (e.0, e.1, e.2, e.3)) != Some((2, 9, 2, 1)) || t.len() != 1 {
                        problems.push(format!("search table: a store after {} clears is not found (len {})", n, t.len()));
                    }
                    problems
                });
                wrapper_steps.fetch_add(2 * n + 4, std::sync::atomic::Ordering::Relaxed);
                match r {
                    Ok(problems) => {
                        for pr in problems {
                            rep.report(format!("clear_count:{}", pr.split(':').next().unwrap_or("").replace(' ', "_")), json!({"kind": "clear_count", "clears": n, "problem": pr}));
                        }
                    }
                    Err(m) => rep.report("panic:clear_count".to_string(), json!({"kind": "clear_count", "clears": n, "panic": m})),
                }
            });
        }
        let wrapper_secs = t3.elapsed().as_secs_f64();
        // declared-capacity probe: capacities of EVERY magnitude up to 2^62 cannot be filled, but what
        // the table does with the configured number shows without filling it: the fill level it
        // reports (entries / configured capacity) and that nothing is evicted below the capacity
        let t2 = Instant::now();
        let mut declared: Vec<usize> = Vec::new();
        for k in 0..=62u32 {
            for d in [-1i64, 0, 1] {
                let c = (1i64 << k) + d;
                if c >= 1 {
                    declared.push(c as usize);
                }
            }
        }
        declared.extend([10_000_000usize, 3_728_270, 16_777_217, 100_000_000, usize::MAX / 2, usize::MAX]);
        declared.sort();
        declared.dedup();
        let probe_ops = AtomicU64::new(0);
        par_map_fine(&declared, |&cap| {
            let r = guarded(|| declared_probe(cap));
            probe_ops.fetch_add(cap.min(3000) as u64 + 3, std::sync::atomic::Ordering::Relaxed);
            match r {
                Ok(problems) => {
                    for pr in problems {
                        rep.report(format!("declared_capacity:{}", pr.split(' ').take(3).collect::<Vec<_>>().join("_")), json!({"kind": "declared_capacity", "capacity": cap, "problem": pr}));
                    }
                }
                Err(m) => rep.report("panic:declared_capacity".to_string(), json!({"kind": "declared_capacity", "capacity": cap, "panic": m})),
            }
        });
        let declared_secs = t2.elapsed().as_secs_f64();
        let mut cov = Coverage::new();
        cov.states = states;
        cov.transitions = transitions + unrolled;
        cov.traces_validated = cov.transitions;
        cov.exhaustive = true;
        cov.set("stateright_bfs", json!(per_cap));
        cov.set("capacity_sweep", json!({"capacities": caps_swept, "operations": sweep_ops.load(std::sync::atomic::Ordering::Relaxed), "secs": t1.elapsed().as_secs_f64(), "history": "capacity+5 distinct puts, lookups of the first / last / power-of-two keys, overwrites in the full table, clear"}));
        cov.set("declared_capacity_probe", json!({"capacities": declared.len(), "largest": declared.last(), "operations": probe_ops.load(std::sync::atomic::Ordering::Relaxed), "secs": declared_secs, "history": "min(capacity+3, 3000) distinct puts; len, reported fill level against entries / configured capacity, oldest key still present"}));
        cov.set("search_table_histories", json!({"what": "the transposition table object a Search owns, through the TranspositionTable trait", "histories": wrapper_steps.load(std::sync::atomic::Ordering::Relaxed), "keys": 3, "entry_shapes": 3, "secs": wrapper_secs}));
        cov.set("search_table_line_histories", json!({"what": "entries that carry whole lines (value and move per ply), every bound type with and without a move", "histories": line_steps.load(std::sync::atomic::Ordering::Relaxed), "keys": 2, "entry_shapes": 36}));
        cov.set("unrolled_histories_without_dedup", json!({"capacity": ucap, "depth": udepth, "histories": unrolled, "secs": t0.elapsed().as_secs_f64()}));
        cov.set("explanation", json!("reachable state space of the real table (deduplicated on its own queue+map contents) explored to fixpoint for each capacity with capacity+2 keys and 2 values; the table only compares keys for equality, so capacity+2 keys let 'present', 'evicted and re-inserted' and 'never seen' coexist"));
        cov.samples = SAMPLES.lock().unwrap().clone();
        cov.samples.push(json!({"capacity": 2, "history": ["put(0,0)", "put(1,0)", "put(0,1)", "put(2,0)", "get(0)"], "expected_last_result": null}));
        cov.assumptions = vec!["stateright deduplicates on a 64-bit fingerprint of the state; with < 10^5 states a collision is negligible and would only hide states, never raise an alarm".into()];
        finish(&rep, tier, cov, started)
    }

    fn unroll(rep: &Reporter, cap: usize, keys: &[u64], menu: &[Op], hist: &mut Vec<Op>, depth: usize, n: &mut u64) {
        if hist.len() == depth {
            *n += 1;
            let r = guarded(|| {
                // judge every prefix's return value and the final invariant
                let (t, r, notes) = replay(cap, hist);
                notes.into_iter().flatten().next().or_else(|| invariant(cap, &t, &r, keys))
            });
            let problem = match r {
                Ok(p) => p,
                Err(m) => Some(format!("panic: {}", m)),
            };
            if let Some(p) = problem {
                rep.report(format!("{}:cap{}", sig_of(&p), cap), json!({"kind": "table_history", "capacity": cap, "history": format!("{:?}", hist), "ops": ops_json(hist), "problem": p}));
            }
            return;
        }
        for &op in menu {
            hist.push(op);
            unroll(rep, cap, keys, menu, hist, depth, n);
            hist.pop();
        }
    }

    pub fn ops_json(h: &[Op]) -> Value {
        json!(h
            .iter()
            .map(|o| match o {
                Op::Put(k, v) => json!(["put", k, v]),
                Op::Get(k) => json!(["get", k]),
                Op::Clear => json!(["clear"]),
            })
            .collect::<Vec<_>>())
    }

    /// what the table does with a configured capacity it cannot be filled to
    fn declared_probe(cap: usize) -> Vec<String> {
        let mut problems: Vec<String> = Vec::new();
        let mut t = Table::new(cap);
        let n = cap.saturating_add(3).min(3000);
        for k in 0..n as u64 {
            t.put(k, !k);
        }
        let want_len = n.min(cap);
        if t.len() != want_len {
            problems.push(format!("after {} distinct puts len() = {}, expected {}", n, t.len(), want_len));
        }
        let want_lf = want_len as f32 / cap as f32;
        let lf = t.load_factor();
        if (lf - want_lf).abs() > want_lf * 1e-5 {
            problems.push(format!("fill level reported as {:e} with {} entries and configured capacity {} (expected {:e})", lf, t.len(), cap, want_lf));
        }
        if n <= cap && t.get(0) != Some(!0u64) {
            problems.push(format!("oldest key missing after {} puts although the configured capacity is {}", n, cap));
        }
        problems
    }

    /// the canonical fill-and-overflow history on one capacity
    fn sweep_problems(cap: usize) -> Vec<String> {
        let mut t = Table::new(cap);
        let extra = 5usize;
        let mut problems: Vec<String> = Vec::new();
        for k in 0..(cap + extra) as u64 {
            t.put(k, k ^ 0x5555);
            let n = (k + 1) as usize;
            // judged at every power of two, around the capacity, and at the end
            if n.is_power_of_two() || n + 2 >= cap {
                let want = n.min(cap);
                if t.len() != want && problems.len() < 3 {
                    problems.push(format!("after {} distinct puts len() = {} (capacity {}), expected {}", n, t.len(), cap, want));
                }
                if n <= cap && t.get(0) != Some(0x5555) && problems.len() < 3 {
                    problems.push(format!("oldest key evicted after {} distinct puts although capacity is {}", n, cap));
                }
            }
        }
        for k in 0..(cap + extra) as u64 {
            if k < extra as u64 || k + 3 >= (cap + extra) as u64 || k.is_power_of_two() {
                let want = if k < extra as u64 { None } else { Some(k ^ 0x5555) };
                if t.get(k) != want && problems.len() < 3 {
                    problems.push(format!("capacity {}: after {} distinct puts get({}) = {:?}, expected {:?}", cap, cap + extra, k, t.get(k), want));
                }
            }
        }
        let lf = t.load_factor();
        if (lf - 1.0).abs() > 1e-6 && problems.len() < 3 {
            problems.push(format!("capacity {}: full table reports load factor {}", cap, lf));
        }
        // overwrite of present keys in the full table must not evict, clear empties
        let (q0, _) = t.snapshot();
        let oldest = q0.first().copied().unwrap_or(0);
        let newest = (cap + extra - 1) as u64;
        t.put(oldest, 1);
        t.put(newest, 2);
        if t.len() != cap || t.get(oldest) != Some(if oldest == newest { 2 } else { 1 }) || t.get(newest) != Some(2) {
            problems.push(format!("capacity {}: overwriting present keys in a full table changed its contents (len {})", cap, t.len()));
        }
        t.clear();
        if t.len() != 0 || t.get(oldest).is_some() {
            problems.push(format!("capacity {}: clear left entries", cap));
        }
        problems
    }

    pub fn replay_case(case: &Value) -> i32 {
        let started = Instant::now();
        let rep = Reporter::new("C18");
        let cap = case["capacity"].as_u64().unwrap_or(1) as usize;
        let kind = case["kind"].as_str().unwrap_or("");
        if kind == "declared_capacity" || kind == "capacity_sweep" {
            match guarded(|| if kind == "declared_capacity" { declared_probe(cap) } else { sweep_problems(cap) }) {
                Ok(problems) => {
                    for pr in problems {
                        println!("{}", pr);
                        rep.report(format!("{}:{}", kind, pr.split(' ').take(3).collect::<Vec<_>>().join("_")), json!({"kind": kind, "capacity": cap, "problem": pr}));
                    }
                }
                Err(m) => rep.report(format!("panic:{}", kind), json!({"kind": kind, "capacity": cap, "panic": m})),
            }
            println!("replay: {} violating case(s) reproduced", rep.violation_count());
            let mut cov = Coverage::new();
            cov.states = 1;
            return finish(&rep, Tier::Quick, cov, started);
        }
        if kind == "search_table_line_history" {
            let hist: Vec<usize> = case["op_codes"].as_array().cloned().unwrap_or_default().iter().map(|v| v.as_u64().unwrap_or(0) as usize).collect();
            println!("history on the table a Search owns: {:?}", line_ops_text(&hist));
            match guarded(|| line_history_problem(&mut inkayaku_engine_core::verif::SearchTable::new(), &hist)) {
                Ok(Some(pr)) => {
                    println!("{}", pr);
                    rep.report(format!("search_table_lines:{}", sig_of(&pr)), json!({"kind": kind, "op_codes": hist, "ops": line_ops_text(&hist), "problem": pr}));
                }
                Ok(None) => {}
                Err(m) => rep.report("panic:search_table_lines".to_string(), json!({"kind": kind, "op_codes": hist, "panic": m})),
            }
            println!("replay: {} violating case(s) reproduced", rep.violation_count());
            let mut cov = Coverage::new();
            cov.states = 1;
            return finish(&rep, Tier::Quick, cov, started);
        }
        let mut hist = Vec::new();
        for o in case["ops"].as_array().cloned().unwrap_or_default() {
            let name = o[0].as_str().unwrap_or("");
            hist.push(match name {
                "put" => Op::Put(o[1].as_u64().unwrap_or(0), o[2].as_u64().unwrap_or(0)),
                "get" => Op::Get(o[1].as_u64().unwrap_or(0)),
                _ => Op::Clear,
            });
        }
        let keys: Vec<u64> = (0..(cap as u64 + 2)).collect();
        let r = guarded(|| {
            let (t, r, notes) = replay(cap, &hist);
            let p = notes.into_iter().flatten().next().or_else(|| invariant(cap, &t, &r, &keys));
            (t.snapshot(), r, p)
        });
        match r {
            Ok((snap, r, p)) => {
                println!("history: {:?}\nreal table queue/map: {:?}\nreference: {:?}", hist, snap, r);
                if let Some(p) = p {
                    rep.report(format!("{}:cap{}", sig_of(&p), cap), json!({"kind": "table_history", "capacity": cap, "history": format!("{:?}", hist), "ops": ops_json(&hist), "problem": p}));
                }
            }
            Err(m) => rep.report("panic".to_string(), json!({"kind": "table_history", "capacity": cap, "ops": ops_json(&hist), "panic": m})),
        }
        println!("replay: {} violating case(s) reproduced", rep.violation_count());
        let mut cov = Coverage::new();
        cov.states = 1;
        finish(&rep, Tier::Quick, cov, started)
    }
}

#[cfg(inkayaku_verif)]
pub use imp::{replay_case, run};

#[cfg(not(inkayaku_verif))]
pub fn run(_t: Tier) -> i32 {
    eprintln!("C18 needs the hook build");
    2
}
#[cfg(not(inkayaku_verif))]
pub fn replay_case(_c: &Value) -> i32 {
    2
}
