//! Position families (DESIGN §3). Everything is produced by the reference model.

use crate::common::*;
use refchess::*;
use std::collections::HashSet;

pub const ROOT_FENS: &[&str] = &[
    "rnbqkbnr/pppppppp/8/8/8/8/PPPPPPPP/RNBQKBNR w KQkq - 0 1",
    "r3k2r/p1ppqpb1/bn2pnp1/3PN3/1p2P3/2N2Q1p/PPPBBPPP/R3K2R w KQkq - 0 1",
    "8/2p5/3p4/KP5r/1R3p1k/8/4P1P1/8 w - - 0 1",
    "r3k2r/Pppp1ppp/1b3nbN/nP6/BBP1P3/q4N2/Pp1P2PP/R2Q1RK1 w kq - 0 1",
    "rnbq1k1r/pp1Pbppp/2p5/8/2B5/8/PPP1NnPP/RNBQK2R w KQ - 1 8",
    "r4rk1/1pp1qppp/p1np1n2/2b1p1B1/2B1P1b1/P1NP1N2/1PP1QPPP/R4RK1 w - - 0 10",
    // e.p. roots: rank pin, only evasion, e.p. exposing own king, e.p. giving discovered check
    "8/8/8/KPp4r/8/8/8/7k w - c6 0 1",
    "8/8/8/2k5/3Pp3/8/8/4K3 b - d3 0 1",
    "8/8/8/8/k2Pp2Q/8/8/4K3 b - d3 0 1",
    "4k3/8/8/3pP3/8/8/8/4RK2 w - d6 0 1",
    "rnbqkbnr/ppp1p1pp/8/3pPp2/8/8/PPPP1PPP/RNBQKBNR w KQkq f6 0 3",
    // promotions
    "n1n5/PPPk4/8/8/8/8/4Kppp/5N1N w - - 0 1",
    "n1n5/PPPk4/8/8/8/8/4Kppp/5N1N b - - 0 1",
    "8/5P1k/8/8/8/8/8/K7 w - - 0 1",
    "4k2r/6P1/8/8/8/8/8/4K3 w k - 0 1",
    "r3k3/1P6/8/8/8/8/8/4K3 w q - 0 1",
    // tactics: mate in 1, mated, stalemate in 1, pins, rook capturable at home
    "r1bqkbnr/pppp1ppp/2n5/4p3/2B1P3/5Q2/PPPP1PPP/RNB1K1NR w KQkq - 0 1",
    "rnb1kbnr/pppp1ppp/8/4p3/6Pq/5P2/PPPPP2P/RNBQKBNR w KQkq - 1 3",
    "7k/8/4Q3/8/8/8/8/K7 w - - 0 1",
    "4k3/4r3/8/8/8/8/4B3/4K3 w - - 0 1",
    "r3k2r/8/8/8/8/8/6B1/4K3 w kq - 0 1",
    "r3k2r/8/8/8/8/8/6b1/R3K2R b KQkq - 0 1",
    // double check available, discovered checks
    "4k3/8/8/8/8/4N3/8/K3R3 w - - 0 1",
    "3k4/8/8/8/8/8/3B4/K2R4 w - - 0 1",
    // castling through / out of / into check
    "r3k2r/8/8/8/8/8/8/R3K1R1 b kq - 0 1",
    "r3k2r/8/8/4R3/8/8/8/4K3 b kq - 0 1",
    "4k3/8/8/8/8/8/5r2/R3K2R w KQ - 0 1",
    "4k3/8/8/8/8/8/8/Rn2K2R w KQ - 0 1",
    // middlegame with both sides castling rights and many captures
    "r1bqk2r/pppp1ppp/2n2n2/2b1p3/2B1P3/2N2N2/PPPP1PPP/R1BQK2R w KQkq - 4 5",
    "r2q1rk1/ppp2ppp/2np1n2/2b1p1B1/2B1P1b1/2NP1N2/PPP2PPP/R2Q1RK1 w - - 0 8",
];

pub fn castle_roots() -> Vec<Pos> {
    let mut v = Vec::new();
    for rights in 0..16u8 {
        for stm in [WHITE, BLACK] {
            let mut p = Pos::from_fen("r3k2r/8/8/8/8/8/8/R3K2R w - - 0 1").unwrap();
            p.castle = rights;
            p.stm = stm;
            v.push(p);
        }
    }
    v
}

pub fn roots() -> Vec<Pos> {
    let mut v: Vec<Pos> = ROOT_FENS.iter().map(|f| Pos::from_fen(f).unwrap_or_else(|e| panic!("bad root fen {}: {}", f, e))).collect();
    v.extend(castle_roots());
    let flips: Vec<Pos> = v.iter().map(|p| p.flip()).collect();
    v.extend(flips);
    let mut seen = HashSet::new();
    v.retain(|p| seen.insert((p.key(), p.half, p.full)));
    for p in &v {
        assert!(p.is_legal_position(), "illegal root {}", p.to_fen());
    }
    v
}

/// Layered BFS with exact dedup. `visit` is called once per distinct state (key), in
/// parallel; `visit` returns nothing, successors come from the reference model.
/// Returns (states, transitions, transposition hits).
pub fn reach(roots: &[Pos], depth: usize, visit: &(dyn Fn(&Pos, usize) + Sync)) -> (u64, u64, u64) {
    let mut seen: HashSet<Key> = HashSet::new();
    let mut frontier: Vec<Pos> = Vec::new();
    for r in roots {
        if seen.insert(r.key()) {
            frontier.push(r.clone());
        }
    }
    let mut states = 0u64;
    let mut transitions = 0u64;
    let mut transpositions = 0u64;
    for d in 0..=depth {
        states += frontier.len() as u64;
        let expand = d < depth;
        let succs: Vec<Vec<Pos>> = par_map(&frontier, |p| {
            visit(p, d);
            if expand {
                p.legal().iter().map(|m| p.make(m)).collect()
            } else {
                Vec::new()
            }
        });
        let mut next = Vec::new();
        for list in succs {
            for s in list {
                transitions += 1;
                if seen.insert(s.key()) {
                    next.push(s);
                } else {
                    transpositions += 1;
                }
            }
        }
        frontier = next;
        if frontier.is_empty() {
            break;
        }
    }
    (states, transitions, transpositions)
}

// ---------------------------------------------------------------------------------------
// index-decoded families

pub trait Family: Sync {
    fn name(&self) -> String;
    fn len(&self) -> u64;
    fn decode(&self, i: u64) -> Option<Pos>;
}

/// all placements of a material signature, both sides to move, no rights, no e.p.
pub struct Material {
    pub label: String,
    pub pieces: Vec<u8>,
}

impl Material {
    /// signature like "KQk", "KRkb", "KNNk": upper case = white
    pub fn new(sig: &str) -> Self {
        let pieces = sig
            .chars()
            .map(|c| {
                let kind = match c.to_ascii_lowercase() {
                    'p' => PAWN,
                    'n' => KNIGHT,
                    'b' => BISHOP,
                    'r' => ROOK,
                    'q' => QUEEN,
                    'k' => KING,
                    _ => panic!("bad signature"),
                };
                pc(if c.is_ascii_uppercase() { WHITE } else { BLACK }, kind)
            })
            .collect();
        Material { label: sig.to_string(), pieces }
    }
}

impl Family for Material {
    fn name(&self) -> String {
        format!("MAT:{}", self.label)
    }
    fn len(&self) -> u64 {
        2 * 64u64.pow(self.pieces.len() as u32)
    }
    fn decode(&self, mut i: u64) -> Option<Pos> {
        let mut p = Pos::empty();
        p.stm = (i % 2) as u8;
        i /= 2;
        let mut prev: Option<(u8, u8)> = None;
        for &piece in &self.pieces {
            let sq = (i % 64) as u8;
            i /= 64;
            if p.board[sq as usize] != EMPTY {
                return None;
            }
            // identical consecutive pieces: ascending squares only (no double counting)
            if let Some((pp, ps)) = prev {
                if pp == piece && sq < ps {
                    return None;
                }
            }
            p.board[sq as usize] = piece;
            prev = Some((piece, sq));
        }
        if p.is_legal_position() {
            Some(p)
        } else {
            None
        }
    }
}

/// CASTLE: K e1 with rook(s) at home and every consistent non-empty rights subset, enemy king
/// anywhere, one enemy piece of every kind anywhere, optional blocker on b1,c1,d1,f1,g1,
/// both sides to move. (Flip is applied by the caller.)
pub struct CastleFam {
    /// number of blocker options: 6 = none + own knight on b1,c1,d1,f1,g1; 11 adds an enemy bishop on each
    pub blockers: u64,
}
const CASTLE_CONFIGS: [(bool, bool, u8); 5] = [(true, false, CASTLE_WQ), (false, true, CASTLE_WK), (true, true, CASTLE_WK), (true, true, CASTLE_WQ), (true, true, CASTLE_WK | CASTLE_WQ)];
const BLOCKER_SQS: [u8; 5] = [57, 58, 59, 61, 62];
impl Family for CastleFam {
    fn name(&self) -> String {
        "CASTLE".into()
    }
    fn len(&self) -> u64 {
        5 * 64 * 6 * 64 * self.blockers * 2
    }
    fn decode(&self, mut i: u64) -> Option<Pos> {
        let cfg = CASTLE_CONFIGS[(i % 5) as usize];
        i /= 5;
        let bk = (i % 64) as u8;
        i /= 64;
        let ekind = (i % 6) as u8; // 0 = none, 1..5 = p n b r q
        i /= 6;
        let esq = (i % 64) as u8;
        i /= 64;
        let blocker = (i % self.blockers) as u8; // 0 none, 1..5 own knight, 6..10 enemy bishop
        i /= self.blockers;
        let stm = (i % 2) as u8;
        if ekind == 0 && esq != 0 {
            return None;
        }
        let mut p = Pos::empty();
        p.stm = stm;
        p.board[60] = pc(WHITE, KING);
        if cfg.0 {
            p.board[56] = pc(WHITE, ROOK);
        }
        if cfg.1 {
            p.board[63] = pc(WHITE, ROOK);
        }
        p.castle = cfg.2;
        if p.board[bk as usize] != EMPTY {
            return None;
        }
        p.board[bk as usize] = pc(BLACK, KING);
        if ekind != 0 {
            if p.board[esq as usize] != EMPTY {
                return None;
            }
            p.board[esq as usize] = pc(BLACK, ekind);
        }
        if blocker != 0 {
            let (sq, piece) = if blocker <= 5 { (BLOCKER_SQS[(blocker - 1) as usize], pc(WHITE, KNIGHT)) } else { (BLOCKER_SQS[(blocker - 6) as usize], pc(BLACK, BISHOP)) };
            if p.board[sq as usize] != EMPTY {
                return None;
            }
            p.board[sq as usize] = piece;
        }
        if p.is_legal_position() {
            Some(p)
        } else {
            None
        }
    }
}

/// EP: white pawn on its 5th rank, adjacent black pawn that just double-pushed (e.p. set),
/// optional second white pawn on the other side, kings anywhere, optional extra piece.
pub struct EpFam {
    /// extra piece menu: (piece code, restrict white king to row 3?)
    pub extras: Vec<(u8, bool)>,
}
impl EpFam {
    pub fn quick() -> Self {
        EpFam { extras: vec![(0, false), (pc(BLACK, ROOK), true), (pc(BLACK, QUEEN), true)] }
    }
    pub fn thorough() -> Self {
        EpFam { extras: vec![(0, false), (pc(BLACK, ROOK), false), (pc(BLACK, QUEEN), false), (pc(BLACK, BISHOP), false), (pc(WHITE, ROOK), false), (pc(WHITE, BISHOP), false), (pc(WHITE, QUEEN), false)] }
    }
}
impl Family for EpFam {
    fn name(&self) -> String {
        "EP".into()
    }
    fn len(&self) -> u64 {
        8 * 2 * 2 * 64 * 64 * 64 * self.extras.len() as u64
    }
    fn decode(&self, mut i: u64) -> Option<Pos> {
        let f = (i % 8) as i8;
        i /= 8;
        let side = if i % 2 == 0 { -1i8 } else { 1 };
        i /= 2;
        let second = i % 2 == 1;
        i /= 2;
        let wk = (i % 64) as u8;
        i /= 64;
        let bk = (i % 64) as u8;
        i /= 64;
        let xsq = (i % 64) as u8;
        i /= 64;
        let (xpiece, wk_row3) = self.extras[i as usize];
        if xpiece == 0 && xsq != 0 {
            return None;
        }
        if wk_row3 && row_of(wk) != 3 {
            return None;
        }
        let bf = f + side;
        if !(0..8).contains(&bf) {
            return None;
        }
        let mut p = Pos::empty();
        p.board[sq_at(f, 3).unwrap() as usize] = pc(WHITE, PAWN);
        p.board[sq_at(bf, 3).unwrap() as usize] = pc(BLACK, PAWN);
        if second {
            let f2 = bf + side;
            if !(0..8).contains(&f2) {
                return None;
            }
            p.board[sq_at(f2, 3).unwrap() as usize] = pc(WHITE, PAWN);
        }
        p.ep = sq_at(bf, 2).unwrap();
        for (sq, piece) in [(wk, pc(WHITE, KING)), (bk, pc(BLACK, KING))] {
            if p.board[sq as usize] != EMPTY {
                return None;
            }
            p.board[sq as usize] = piece;
        }
        if xpiece != 0 {
            if p.board[xsq as usize] != EMPTY {
                return None;
            }
            p.board[xsq as usize] = xpiece;
        }
        p.stm = WHITE;
        if p.is_legal_position() {
            Some(p)
        } else {
            None
        }
    }
}

/// PROMO: white pawn on the 7th on every file, kings anywhere, enemy pieces / own blocker on
/// the three squares it can reach.
pub struct PromoFam {
    pub side_menu: Vec<u8>,  // piece codes for the capture squares (0 = empty)
    pub front_menu: Vec<u8>, // piece codes for the square in front (0 = empty)
}
impl PromoFam {
    pub fn quick() -> Self {
        PromoFam { side_menu: vec![0, pc(BLACK, ROOK), pc(BLACK, KNIGHT)], front_menu: vec![0, pc(BLACK, ROOK), pc(WHITE, KNIGHT)] }
    }
    pub fn thorough() -> Self {
        PromoFam { side_menu: vec![0, pc(BLACK, ROOK), pc(BLACK, KNIGHT), pc(BLACK, BISHOP), pc(BLACK, QUEEN)], front_menu: vec![0, pc(BLACK, ROOK), pc(WHITE, KNIGHT), pc(BLACK, QUEEN), pc(BLACK, BISHOP), pc(BLACK, KNIGHT)] }
    }
}
impl Family for PromoFam {
    fn name(&self) -> String {
        "PROMO".into()
    }
    fn len(&self) -> u64 {
        let s = self.side_menu.len() as u64;
        8 * 64 * 64 * s * s * self.front_menu.len() as u64 * 2
    }
    fn decode(&self, mut i: u64) -> Option<Pos> {
        let s = self.side_menu.len() as u64;
        let f = (i % 8) as i8;
        i /= 8;
        let wk = (i % 64) as u8;
        i /= 64;
        let bk = (i % 64) as u8;
        i /= 64;
        let l = self.side_menu[(i % s) as usize];
        i /= s;
        let r = self.side_menu[(i % s) as usize];
        i /= s;
        let fr = self.front_menu[(i % self.front_menu.len() as u64) as usize];
        i /= self.front_menu.len() as u64;
        let stm = (i % 2) as u8;
        let mut p = Pos::empty();
        p.stm = stm;
        p.board[sq_at(f, 1).unwrap() as usize] = pc(WHITE, PAWN);
        for (df, piece) in [(-1i8, l), (1, r), (0, fr)] {
            if piece == 0 {
                continue;
            }
            match sq_at(f + df, 0) {
                Some(sq) => p.board[sq as usize] = piece,
                None => return None,
            }
        }
        for (sq, piece) in [(wk, pc(WHITE, KING)), (bk, pc(BLACK, KING))] {
            if p.board[sq as usize] != EMPTY {
                return None;
            }
            p.board[sq as usize] = piece;
        }
        // rook on a8/h8 captured by promotion: give black the matching right when its king is home
        if p.board[4] == pc(BLACK, KING) {
            if p.board[0] == pc(BLACK, ROOK) {
                p.castle |= CASTLE_BQ;
            }
            if p.board[7] == pc(BLACK, ROOK) {
                p.castle |= CASTLE_BK;
            }
        }
        if p.is_legal_position() {
            Some(p)
        } else {
            None
        }
    }
}

/// PROMOX: a white pawn on its 7th rank on every file whose push is BLOCKED (an own queen / knight or
/// an enemy rook / knight / queen / bishop stands in front of it) and which can capture an enemy
/// rook, queen or knight on one side; both kings anywhere; one more white and one more black piece of
/// every kind anywhere; both sides to move. The only promotion is a capture, on the edge files towards
/// the centre; with the extra pieces there are lines in which promoting later is better than at once.
pub struct PromoX;
impl Family for PromoX {
    fn name(&self) -> String {
        "PROMOX".into()
    }
    fn len(&self) -> u64 {
        64 * 64 * 64 * 4 * 64 * 4 * 8 * 6 * 2 * 3 * 2
    }
    fn decode(&self, mut i: u64) -> Option<Pos> {
        let mut take = |n: u64| -> u64 {
            let v = i % n;
            i /= n;
            v
        };
        let wk = take(64) as u8;
        let bk = take(64) as u8;
        let x = take(64) as u8;
        let xkind = [QUEEN, ROOK, BISHOP, KNIGHT][take(4) as usize];
        let y = take(64) as u8;
        let ykind = [QUEEN, ROOK, BISHOP, KNIGHT][take(4) as usize];
        let f = take(8) as i8;
        let front = [pc(WHITE, QUEEN), pc(WHITE, KNIGHT), pc(BLACK, ROOK), pc(BLACK, KNIGHT), pc(BLACK, QUEEN), pc(BLACK, BISHOP)][take(6) as usize];
        let side = if take(2) == 0 { -1i8 } else { 1 };
        let victim = [ROOK, QUEEN, KNIGHT][take(3) as usize];
        let stm = take(2) as u8;
        let mut p = Pos::empty();
        p.board[sq_at(f, 1)? as usize] = pc(WHITE, PAWN);
        p.board[sq_at(f, 0)? as usize] = front;
        p.board[sq_at(f + side, 0)? as usize] = pc(BLACK, victim);
        for (sq, piece) in [(wk, pc(WHITE, KING)), (bk, pc(BLACK, KING)), (x, pc(WHITE, xkind)), (y, pc(BLACK, ykind))] {
            if p.board[sq as usize] != EMPTY {
                return None;
            }
            p.board[sq as usize] = piece;
        }
        p.stm = stm;
        p.full = 30;
        if p.is_legal_position() {
            Some(p)
        } else {
            None
        }
    }
}

/// EDGE5: wrap-around geometry. White king on the a- or h-file, a black pawn or knight on the
/// opposite edge file, a black checker-capable piece anywhere, a white defender anywhere, black
/// king anywhere; white to move. (Bit-shift based attack code can leak across the board edge; no
/// family with fewer than five men puts pieces of both sides on both edges and leaves room for a
/// checker and a defender.) The index space is large: callers take a co-prime sub-lattice.
pub struct Edge5;
const EDGE_X: [u8; 2] = [PAWN, KNIGHT];
const EDGE_Y: [u8; 5] = [ROOK, BISHOP, QUEEN, KNIGHT, PAWN];
const EDGE_Z: [u8; 5] = [ROOK, BISHOP, KNIGHT, QUEEN, PAWN];
impl Family for Edge5 {
    fn name(&self) -> String {
        "EDGE5".into()
    }
    fn len(&self) -> u64 {
        16 * 16 * 320 * 320 * 64
    }
    fn decode(&self, mut i: u64) -> Option<Pos> {
        let wk = (i % 16) as i8;
        i /= 16;
        let x = (i % 16) as usize;
        i /= 16;
        let y = (i % 320) as usize;
        i /= 320;
        let z = (i % 320) as usize;
        i /= 320;
        let bk = (i % 64) as u8;
        let wk_file = if wk < 8 { 0 } else { 7 };
        let wk_sq = sq_at(wk_file, wk % 8)?;
        let x_sq = sq_at(7 - wk_file, (x % 8) as i8)?;
        let mut p = Pos::empty();
        p.board[wk_sq as usize] = pc(WHITE, KING);
        for (sq, piece) in [(x_sq, pc(BLACK, EDGE_X[x / 8])), ((y % 64) as u8, pc(BLACK, EDGE_Y[y / 64])), ((z % 64) as u8, pc(WHITE, EDGE_Z[z / 64])), (bk, pc(BLACK, KING))] {
            if p.board[sq as usize] != EMPTY {
                return None;
            }
            p.board[sq as usize] = piece;
        }
        p.stm = WHITE;
        if p.is_legal_position() {
            Some(p)
        } else {
            None
        }
    }
}

/// LIKE3: three like white pieces (N, B, R or Q) standing on squares from which that piece kind
/// attacks one target square on an empty board, the white king, the black king and one black
/// slider (b, r, q) anywhere — the slider pins some of them, blocks others, gives check. For SAN
/// disambiguation with more than two candidates of which some cannot legally move.
pub struct Like3 {
    pub kind: u8,
}
fn empty_board_sources(kind: u8, target: u8) -> Vec<u8> {
    let mut p = Pos::empty();
    let mut v = Vec::new();
    for s in 0..64u8 {
        if s == target {
            continue;
        }
        p.board[s as usize] = pc(WHITE, kind);
        if p.piece_attacks(s, target) {
            v.push(s);
        }
        p.board[s as usize] = EMPTY;
    }
    v
}
impl Like3 {
    /// upper bound of source triples per target: C(8,3), C(13,3), C(14,3), C(27,3)
    fn triples(&self) -> u64 {
        match self.kind {
            KNIGHT => 56,
            BISHOP => 286,
            ROOK => 364,
            _ => 2925,
        }
    }
}
impl Family for Like3 {
    fn name(&self) -> String {
        format!("LIKE3:{}", kind_letter_lower(self.kind).to_ascii_uppercase())
    }
    fn len(&self) -> u64 {
        // target x source triple index x wk x bk x slider kind x slider square
        64 * self.triples() * 64 * 64 * 3 * 64
    }
    fn decode(&self, mut i: u64) -> Option<Pos> {
        let target = (i % 64) as u8;
        i /= 64;
        let triple = (i % self.triples()) as usize;
        i /= self.triples();
        let wk = (i % 64) as u8;
        i /= 64;
        let bk = (i % 64) as u8;
        i /= 64;
        let skind = [BISHOP, ROOK, QUEEN][(i % 3) as usize];
        i /= 3;
        let ssq = (i % 64) as u8;
        let src = empty_board_sources(self.kind, target);
        let n = src.len();
        // decode the triple index into a < b < c
        let mut t = triple;
        let mut found = None;
        'outer: for a in 0..n {
            for b in (a + 1)..n {
                let cnt = n - b - 1;
                if t < cnt {
                    found = Some((src[a], src[b], src[b + 1 + t]));
                    break 'outer;
                }
                t -= cnt;
            }
        }
        let (a, b, c) = found?;
        let mut p = Pos::empty();
        for (sq, piece) in [(a, pc(WHITE, self.kind)), (b, pc(WHITE, self.kind)), (c, pc(WHITE, self.kind)), (wk, pc(WHITE, KING)), (bk, pc(BLACK, KING)), (ssq, pc(BLACK, skind))] {
            if p.board[sq as usize] != EMPTY {
                return None;
            }
            p.board[sq as usize] = piece;
        }
        p.stm = WHITE;
        if p.is_legal_position() {
            Some(p)
        } else {
            None
        }
    }
}

/// STAGE9: middlegame-stage material in which trades switch the evaluation's game stage, with
/// asymmetric kings — white K on one of the 16 central squares, Q, one minor piece and a pawn;
/// black K in a corner region, q, b, n and a pawn (nine men, both sides to move). Huge index
/// space: callers take a co-prime sub-lattice.
pub struct Stage9;
impl Family for Stage9 {
    fn name(&self) -> String {
        "STAGE9".into()
    }
    fn len(&self) -> u64 {
        16 * 12 * 64 * 2 * 64 * 48 * 64 * 64 * 64 * 48 * 2
    }
    fn decode(&self, mut i: u64) -> Option<Pos> {
        let mut take = |n: u64| -> u64 {
            let v = i % n;
            i /= n;
            v
        };
        let wk = take(16);
        let bk = take(12);
        let wq = take(64) as u8;
        let wkind = [BISHOP, KNIGHT][take(2) as usize];
        let wm = take(64) as u8;
        let wp = take(48) as u8 + 8;
        let bq = take(64) as u8;
        let bb = take(64) as u8;
        let bn = take(64) as u8;
        let bp = take(48) as u8 + 8;
        let stm = take(2) as u8;
        let wk_sq = sq_at(2 + (wk % 4) as i8, 2 + (wk / 4) as i8)?;
        const CORNER: [u8; 12] = [0, 1, 8, 6, 7, 15, 48, 56, 57, 55, 62, 63];
        let bk_sq = CORNER[bk as usize];
        let mut p = Pos::empty();
        for (sq, piece) in [
            (wk_sq, pc(WHITE, KING)),
            (bk_sq, pc(BLACK, KING)),
            (wq, pc(WHITE, QUEEN)),
            (wm, pc(WHITE, wkind)),
            (wp, pc(WHITE, PAWN)),
            (bq, pc(BLACK, QUEEN)),
            (bb, pc(BLACK, BISHOP)),
            (bn, pc(BLACK, KNIGHT)),
            (bp, pc(BLACK, PAWN)),
        ] {
            if p.board[sq as usize] != EMPTY {
                return None;
            }
            p.board[sq as usize] = piece;
        }
        p.stm = stm;
        p.full = 30;
        if p.is_legal_position() {
            Some(p)
        } else {
            None
        }
    }
}

/// STAGEFLIP: a single capture changes the evaluation's game stage (and with it both kings' tables):
/// white K on one of the 16 central squares and one white piece X (N, B, R or Q) that can capture the
/// black queen; black k in a corner region with q, b and n anywhere. White to move. After X takes the
/// only black queen the material is on the other side of the stage rule; the kings stand where the
/// two king tables differ most, so one capture moves the evaluation by more than the queen's value.
pub struct StageFlip;
impl Family for StageFlip {
    fn name(&self) -> String {
        "STAGEFLIP".into()
    }
    fn len(&self) -> u64 {
        64 * 64 * 64 * 64 * 4 * 16 * 12
    }
    fn decode(&self, mut i: u64) -> Option<Pos> {
        let mut take = |n: u64| -> u64 {
            let v = i % n;
            i /= n;
            v
        };
        let bb = take(64) as u8;
        let bn = take(64) as u8;
        let bq = take(64) as u8;
        let x = take(64) as u8;
        let xkind = [KNIGHT, BISHOP, ROOK, QUEEN][take(4) as usize];
        let wk = take(16);
        let bk = take(12);
        let wk_sq = sq_at(2 + (wk % 4) as i8, 2 + (wk / 4) as i8)?;
        const CORNER: [u8; 12] = [0, 1, 8, 6, 7, 15, 48, 56, 57, 55, 62, 63];
        let bk_sq = CORNER[bk as usize];
        let mut p = Pos::empty();
        for (sq, piece) in [(wk_sq, pc(WHITE, KING)), (bk_sq, pc(BLACK, KING)), (x, pc(WHITE, xkind)), (bq, pc(BLACK, QUEEN)), (bb, pc(BLACK, BISHOP)), (bn, pc(BLACK, KNIGHT))] {
            if p.board[sq as usize] != EMPTY {
                return None;
            }
            p.board[sq as usize] = piece;
        }
        p.stm = WHITE;
        p.full = 30;
        if !p.is_legal_position() {
            return None;
        }
        // X (or the king) can take the queen
        if p.legal().iter().any(|m| m.to == bq && m.captured == QUEEN) {
            Some(p)
        } else {
            None
        }
    }
}

/// CHK5: the white king attacked by a black pawn (either of the two squares), a black slider
/// anywhere (so that pawn + slider double checks, discovered checks behind the pawn and pins all
/// occur), one white piece of every kind anywhere, black king anywhere; white to move.
pub struct Chk5;
impl Family for Chk5 {
    fn name(&self) -> String {
        "CHK5".into()
    }
    fn len(&self) -> u64 {
        64 * 2 * 192 * 256 * 64
    }
    fn decode(&self, mut i: u64) -> Option<Pos> {
        let wk = (i % 64) as u8;
        i /= 64;
        let side = if i % 2 == 0 { -1i8 } else { 1 };
        i /= 2;
        let s = (i % 192) as usize;
        i /= 192;
        let w = (i % 256) as usize;
        i /= 256;
        let bk = (i % 64) as u8;
        // a black pawn attacks towards higher rows: it stands one row above (smaller row) the king
        let psq = sq_at(file_of(wk) + side, row_of(wk) - 1)?;
        let mut p = Pos::empty();
        p.board[wk as usize] = pc(WHITE, KING);
        for (sq, piece) in [(psq, pc(BLACK, PAWN)), ((s % 64) as u8, pc(BLACK, [ROOK, BISHOP, QUEEN][s / 64])), ((w % 64) as u8, pc(WHITE, [KNIGHT, BISHOP, ROOK, QUEEN][w / 64])), (bk, pc(BLACK, KING))] {
            if p.board[sq as usize] != EMPTY {
                return None;
            }
            p.board[sq as usize] = piece;
        }
        p.stm = WHITE;
        if p.is_legal_position() {
            Some(p)
        } else {
            None
        }
    }
}

/// PUSHCHK: a white pawn on its start square whose double push checks the black king and can be
/// taken en passant by a black pawn next to its arrival square; white king and two further white
/// pieces (every ordered pair of kinds from Q R B N) anywhere. White to move, no e.p. square yet:
/// the push that CREATES the e.p. right is the move under test (check / mate suffix, evasions that
/// exist only as en passant captures).
pub struct PushChk;
impl Family for PushChk {
    fn name(&self) -> String {
        "PUSHCHK".into()
    }
    fn len(&self) -> u64 {
        8 * 2 * 2 * 64 * 64 * 64 * 16
    }
    fn decode(&self, mut i: u64) -> Option<Pos> {
        let mut take = |n: u64| -> u64 {
            let v = i % n;
            i /= n;
            v
        };
        let f = take(8) as i8;
        let bp_side = if take(2) == 0 { -1i8 } else { 1 };
        let bk_side = if take(2) == 0 { -1i8 } else { 1 };
        let wk = take(64) as u8;
        let x1 = take(64) as u8;
        let x2 = take(64) as u8;
        let kinds = [QUEEN, ROOK, BISHOP, KNIGHT];
        let k1 = kinds[take(4) as usize];
        let k2 = kinds[take(4) as usize];
        if k1 == k2 && x1 >= x2 {
            return None;
        }
        let mut p = Pos::empty();
        p.board[sq_at(f, 6)? as usize] = pc(WHITE, PAWN);
        p.board[sq_at(f + bp_side, 4)? as usize] = pc(BLACK, PAWN);
        let bk = sq_at(f + bk_side, 3)?;
        p.board[bk as usize] = pc(BLACK, KING);
        let blocked = [sq_at(f, 5)?, sq_at(f, 4)?];
        for (sq, piece) in [(wk, pc(WHITE, KING)), (x1, pc(WHITE, k1)), (x2, pc(WHITE, k2))] {
            if p.board[sq as usize] != EMPTY || blocked.contains(&sq) {
                return None;
            }
            p.board[sq as usize] = piece;
        }
        p.stm = WHITE;
        if p.is_legal_position() {
            Some(p)
        } else {
            None
        }
    }
}

/// DPBLOCK: the white king is checked by a black slider along a rank or diagonal that crosses the
/// square two in front of a white home-rank pawn (so the double step interposes and the single step
/// does not); black king anywhere, optionally one more black piece and one more white piece (N or P)
/// anywhere. White to move, in check. For "has the side to move any legal move" when the only
/// legal move is a pawn's double step.
pub struct DpBlock;
impl Family for DpBlock {
    fn name(&self) -> String {
        "DPBLOCK".into()
    }
    fn len(&self) -> u64 {
        8 * 6 * 7 * 7 * 2 * 64 * 5 * 64 * 3 * 64
    }
    fn decode(&self, mut i: u64) -> Option<Pos> {
        let mut take = |n: u64| -> u64 {
            let v = i % n;
            i /= n;
            v
        };
        let bk = take(64) as u8;
        let xkind = take(5) as usize;
        let xsq = take(64) as u8;
        let wkind = take(3) as usize;
        let wsq = take(64) as u8;
        let f = take(8) as i8;
        let (df, dr) = [(1i8, 0i8), (-1, 0), (1, 1), (1, -1), (-1, 1), (-1, -1)][take(6) as usize];
        let a = take(7) as i8 + 1;
        let b = take(7) as i8 + 1;
        let queen = take(2) == 0;
        if (xkind == 0 && xsq != 0) || (wkind == 0 && wsq != 0) {
            return None;
        }
        let wk = sq_at(f + a * df, 4 + a * dr)?;
        let checker = sq_at(f - b * df, 4 - b * dr)?;
        let mut p = Pos::empty();
        let pawn = sq_at(f, 6)?;
        p.board[pawn as usize] = pc(WHITE, PAWN);
        let kind = if queen { QUEEN } else if dr == 0 { ROOK } else { BISHOP };
        let free = [sq_at(f, 5)?, sq_at(f, 4)?];
        let mut placed: Vec<(u8, u8)> = vec![(wk, pc(WHITE, KING)), (checker, pc(BLACK, kind)), (bk, pc(BLACK, KING))];
        if xkind != 0 {
            placed.push((xsq, pc(BLACK, [QUEEN, ROOK, BISHOP, KNIGHT][xkind - 1])));
        }
        if wkind != 0 {
            let k = [KNIGHT, PAWN][wkind - 1];
            if k == PAWN && (row_of(wsq) == 0 || row_of(wsq) == 7) {
                return None;
            }
            placed.push((wsq, pc(WHITE, k)));
        }
        for (sq, piece) in placed {
            if p.board[sq as usize] != EMPTY || free.contains(&sq) {
                return None;
            }
            p.board[sq as usize] = piece;
        }
        p.stm = WHITE;
        if p.is_legal_position() && p.in_check(WHITE) {
            Some(p)
        } else {
            None
        }
    }
}

/// RIGHTSxEP: both kings and all four rooks at home with every subset of the 16 castling rights, a
/// white pawn that has just made its double step on every file (e.p. square set, Black to move),
/// optionally a black pawn next to it on either side, optionally one more piece (N, B, Q of either
/// colour) anywhere. Castling rights, a pending e.p. square and captures of home rooks meet here.
pub struct RightsEp;
impl Family for RightsEp {
    fn name(&self) -> String {
        "RIGHTSxEP".into()
    }
    fn len(&self) -> u64 {
        16 * 8 * 3 * 7 * 64
    }
    fn decode(&self, mut i: u64) -> Option<Pos> {
        let mut take = |n: u64| -> u64 {
            let v = i % n;
            i /= n;
            v
        };
        let rights = take(16) as u8;
        let f = take(8) as i8;
        let side = take(3) as i8 - 1; // -1, 0 (none), +1
        let xkind = take(7) as usize;
        let xsq = take(64) as u8;
        if xkind == 0 && xsq != 0 {
            return None;
        }
        let mut p = Pos::empty();
        p.board[60] = pc(WHITE, KING);
        p.board[56] = pc(WHITE, ROOK);
        p.board[63] = pc(WHITE, ROOK);
        p.board[4] = pc(BLACK, KING);
        p.board[0] = pc(BLACK, ROOK);
        p.board[7] = pc(BLACK, ROOK);
        p.castle = rights;
        p.board[sq_at(f, 4)? as usize] = pc(WHITE, PAWN);
        if side != 0 {
            p.board[sq_at(f + side, 4)? as usize] = pc(BLACK, PAWN);
        }
        p.ep = sq_at(f, 5)?;
        let keep_free = [sq_at(f, 5)?, sq_at(f, 6)?];
        if xkind != 0 {
            let piece = [pc(WHITE, KNIGHT), pc(WHITE, BISHOP), pc(WHITE, QUEEN), pc(BLACK, KNIGHT), pc(BLACK, BISHOP), pc(BLACK, QUEEN)][xkind - 1];
            if p.board[xsq as usize] != EMPTY || keep_free.contains(&xsq) {
                return None;
            }
            p.board[xsq as usize] = piece;
        }
        p.stm = BLACK;
        if p.is_legal_position() {
            Some(p)
        } else {
            None
        }
    }
}

/// EPPIN: the white king, a white pawn on its 5th rank, the black pawn that has just double-stepped
/// next to it and a black rook or queen stand on one rank in that order (so the en passant capture
/// is pseudo-legal but uncovers the king), with any gaps; black king anywhere, up to two more black
/// minor pieces anywhere. White to move. En passant that is illegal although the capturing pawn is
/// not pinned, down to positions where nothing else is legal either.
pub struct EpPin {
    /// only kings on the a- or h-file (where the king is boxed in most easily), looking inward
    pub edge_only: bool,
}
impl Family for EpPin {
    fn name(&self) -> String {
        if self.edge_only { "EPPIN(edge king)".into() } else { "EPPIN".into() }
    }
    fn len(&self) -> u64 {
        (if self.edge_only { 2 } else { 8 * 2 }) * 6 * 2 * 5 * 2 * 64 * 3 * 64 * 3 * 64
    }
    fn decode(&self, mut i: u64) -> Option<Pos> {
        let mut take = |n: u64| -> u64 {
            let v = i % n;
            i /= n;
            v
        };
        let bk = take(64) as u8;
        let m1k = take(3) as usize;
        let m1 = take(64) as u8;
        let m2k = take(3) as usize;
        let m2 = take(64) as u8;
        let (kf, dir) = if self.edge_only {
            if take(2) == 0 { (0i8, 1i8) } else { (7, -1) }
        } else {
            (take(8) as i8, if take(2) == 0 { 1i8 } else { -1 })
        };
        let g1 = take(6) as i8;
        let white_first = take(2) == 0;
        let g2 = take(5) as i8;
        let queen = take(2) == 0;
        if (m1k == 0 && m1 != 0) || (m2k == 0 && m2 != 0) || (m1k != 0 && m2k != 0 && m1 >= m2) {
            return None;
        }
        let row = 3i8;
        let p1 = kf + dir * (1 + g1);
        let p2 = p1 + dir;
        let sl = p2 + dir * (1 + g2);
        let (wp, bp) = if white_first { (p1, p2) } else { (p2, p1) };
        let mut p = Pos::empty();
        p.board[sq_at(kf, row)? as usize] = pc(WHITE, KING);
        p.board[sq_at(wp, row)? as usize] = pc(WHITE, PAWN);
        p.board[sq_at(bp, row)? as usize] = pc(BLACK, PAWN);
        p.board[sq_at(sl, row)? as usize] = pc(BLACK, if queen { QUEEN } else { ROOK });
        p.ep = sq_at(bp, 2)?;
        let keep_free = [sq_at(bp, 2)?, sq_at(bp, 1)?];
        let mut placed: Vec<(u8, u8)> = vec![(bk, pc(BLACK, KING))];
        if m1k != 0 {
            placed.push((m1, pc(BLACK, [KNIGHT, BISHOP][m1k - 1])));
        }
        if m2k != 0 {
            placed.push((m2, pc(BLACK, [KNIGHT, BISHOP][m2k - 1])));
        }
        for (sq, piece) in placed {
            if p.board[sq as usize] != EMPTY || keep_free.contains(&sq) {
                return None;
            }
            // nothing may stand between the king and the slider except the two pawns
            if row_of(sq) == row && (file_of(sq) - kf) * dir > 0 && (file_of(sq) - sl) * dir < 0 {
                return None;
            }
            p.board[sq as usize] = piece;
        }
        p.stm = WHITE;
        if p.is_legal_position() {
            Some(p)
        } else {
            None
        }
    }
}

/// EPDIAG: a white pawn on its 5th rank, next to it the black pawn that has just double-stepped; the
/// white king and a black bishop or queen stand on one DIAGONAL through the black pawn's square, on
/// opposite sides of it, with nothing else between them (so the en passant capture is pseudo-legal,
/// the capturing pawn is not pinned, and the capture uncovers the king along the diagonal); black king
/// anywhere, up to two more black pieces anywhere. White to move. Together with EPPIN (the rank)
/// this is every line an en passant capture can open by removing the captured pawn.
pub struct EpDiag;
impl Family for EpDiag {
    fn name(&self) -> String {
        "EPDIAG".into()
    }
    fn len(&self) -> u64 {
        64 * 5 * 64 * 3 * 64 * 8 * 2 * 4 * 6 * 6 * 2
    }
    fn decode(&self, mut i: u64) -> Option<Pos> {
        let mut take = |n: u64| -> u64 {
            let v = i % n;
            i /= n;
            v
        };
        let bk = take(64) as u8;
        let x1k = take(5) as usize; // none Q R B N
        let x1 = take(64) as u8;
        let x2k = take(3) as usize; // none Q N
        let x2 = take(64) as u8;
        let bf = take(8) as i8;
        let wside = if take(2) == 0 { -1i8 } else { 1 };
        let (dx, dy) = [(1i8, 1i8), (1, -1), (-1, 1), (-1, -1)][take(4) as usize];
        let kd = 1 + take(6) as i8;
        let sd = 1 + take(6) as i8;
        let queen = take(2) == 0;
        if (x1k == 0 && x1 != 0) || (x2k == 0 && x2 != 0) {
            return None;
        }
        let row = 3i8;
        let bp = sq_at(bf, row)?;
        let wp = sq_at(bf + wside, row)?;
        let wk = sq_at(bf + dx * kd, row + dy * kd)?;
        let sl = sq_at(bf - dx * sd, row - dy * sd)?;
        let mut p = Pos::empty();
        p.board[wk as usize] = pc(WHITE, KING);
        p.board[bp as usize] = pc(BLACK, PAWN);
        if p.board[wp as usize] != EMPTY {
            return None;
        }
        p.board[wp as usize] = pc(WHITE, PAWN);
        if p.board[sl as usize] != EMPTY {
            return None;
        }
        p.board[sl as usize] = pc(BLACK, if queen { QUEEN } else { BISHOP });
        p.ep = sq_at(bf, 2)?;
        let keep_free = [sq_at(bf, 2)?, sq_at(bf, 1)?];
        // the squares of the diagonal strictly between king and slider stay empty (except the pawn)
        let mut between: Vec<u8> = Vec::new();
        for d in 1..kd {
            between.push(sq_at(bf + dx * d, row + dy * d)?);
        }
        for d in 1..sd {
            between.push(sq_at(bf - dx * d, row - dy * d)?);
        }
        let mut placed: Vec<(u8, u8)> = vec![(bk, pc(BLACK, KING))];
        if x1k != 0 {
            placed.push((x1, pc(BLACK, [QUEEN, ROOK, BISHOP, KNIGHT][x1k - 1])));
        }
        if x2k != 0 {
            placed.push((x2, pc(BLACK, [QUEEN, KNIGHT][x2k - 1])));
        }
        for (sq, piece) in placed {
            if p.board[sq as usize] != EMPTY || keep_free.contains(&sq) || between.contains(&sq) {
                return None;
            }
            p.board[sq as usize] = piece;
        }
        if between.iter().any(|&sq| p.board[sq as usize] != EMPTY) {
            return None;
        }
        p.stm = WHITE;
        if p.is_legal_position() {
            Some(p)
        } else {
            None
        }
    }
}

/// PROMO2: two white pawns on their 7th rank one or two files apart (two apart: both can capture onto
/// the square between them), a black piece of every kind on each of the squares in front of and
/// between them that a menu selects, both kings anywhere, one black slider anywhere (pins one of
/// the pawns). Promotions of different pawns onto one square, legal for one and illegal for the other.
pub struct Promo2;
impl Family for Promo2 {
    fn name(&self) -> String {
        "PROMO2".into()
    }
    fn len(&self) -> u64 {
        7 * 2 * 5 * 5 * 64 * 64 * 4 * 64
    }
    fn decode(&self, mut i: u64) -> Option<Pos> {
        let mut take = |n: u64| -> u64 {
            let v = i % n;
            i /= n;
            v
        };
        let wk = take(64) as u8;
        let bk = take(64) as u8;
        let skind = take(4) as usize; // 0 none, 1 rook, 2 bishop, 3 queen
        let ssq = take(64) as u8;
        let f = take(7) as i8;
        let gap = take(2) as i8 + 1;
        let mid = take(5) as usize; // piece on the 8th rank between / next to the pawns: none n b r q
        let front = take(5) as usize; // piece in front of the first pawn
        if skind == 0 && ssq != 0 {
            return None;
        }
        let f2 = f + gap;
        let mut p = Pos::empty();
        p.board[sq_at(f, 1)? as usize] = pc(WHITE, PAWN);
        p.board[sq_at(f2, 1)? as usize] = pc(WHITE, PAWN);
        let kinds = [EMPTY, pc(BLACK, KNIGHT), pc(BLACK, BISHOP), pc(BLACK, ROOK), pc(BLACK, QUEEN)];
        // gap 2: the square between the pawns; gap 1: the square in front of the second pawn
        let mid_sq = if gap == 2 { sq_at(f + 1, 0)? } else { sq_at(f2, 0)? };
        p.board[mid_sq as usize] = kinds[mid];
        p.board[sq_at(f, 0)? as usize] = kinds[front];
        let mut placed: Vec<(u8, u8)> = vec![(wk, pc(WHITE, KING)), (bk, pc(BLACK, KING))];
        if skind != 0 {
            placed.push((ssq, pc(BLACK, [ROOK, BISHOP, QUEEN][skind - 1])));
        }
        for (sq, piece) in placed {
            if p.board[sq as usize] != EMPTY {
                return None;
            }
            p.board[sq as usize] = piece;
        }
        p.stm = WHITE;
        if p.is_legal_position() {
            Some(p)
        } else {
            None
        }
    }
}

/// CASTLE2: K e1 with one or both rooks and rights (the five CASTLE configurations), the enemy king
/// anywhere and TWO enemy pieces of every pair of kinds (P N B R Q) on the three ranks in front of
/// the king (a1..h3): squares of the castling path attacked twice, attacked and blocked, attacked
/// by one piece and shielded by the other. Both sides to move.
pub struct Castle2;
impl Family for Castle2 {
    fn name(&self) -> String {
        "CASTLE2".into()
    }
    fn len(&self) -> u64 {
        5 * 64 * 25 * 24 * 24 * 2
    }
    fn decode(&self, mut i: u64) -> Option<Pos> {
        let mut take = |n: u64| -> u64 {
            let v = i % n;
            i /= n;
            v
        };
        let cfg = CASTLE_CONFIGS[take(5) as usize];
        let bk = take(64) as u8;
        let kinds = take(25);
        let s1 = 40 + take(24) as u8;
        let s2 = 40 + take(24) as u8;
        let stm = take(2) as u8;
        if s1 >= s2 {
            return None;
        }
        let k = [PAWN, KNIGHT, BISHOP, ROOK, QUEEN];
        let (k1, k2) = (k[(kinds % 5) as usize], k[(kinds / 5) as usize]);
        let mut p = Pos::empty();
        p.stm = stm;
        p.board[60] = pc(WHITE, KING);
        if cfg.0 {
            p.board[56] = pc(WHITE, ROOK);
        }
        if cfg.1 {
            p.board[63] = pc(WHITE, ROOK);
        }
        p.castle = cfg.2;
        for (sq, piece) in [(bk, pc(BLACK, KING)), (s1, pc(BLACK, k1)), (s2, pc(BLACK, k2))] {
            if p.board[sq as usize] != EMPTY {
                return None;
            }
            if pc_kind(piece) == PAWN && row_of(sq) == 7 {
                return None;
            }
            p.board[sq as usize] = piece;
        }
        if p.is_legal_position() {
            Some(p)
        } else {
            None
        }
    }
}

/// KINGRING: the white king on every interior square with each of its eight neighbours empty or
/// occupied by an own pawn / knight or an enemy queen / rook / bishop / knight (7^8 rings per
/// square), the black king in the far corner; White to move. Crowded kings: contact checks, pieces
/// that shield, fully occupied rings.
pub struct KingRing;
impl Family for KingRing {
    fn name(&self) -> String {
        "KINGRING".into()
    }
    fn len(&self) -> u64 {
        36 * 7u64.pow(8)
    }
    fn decode(&self, mut i: u64) -> Option<Pos> {
        let ks = (i % 36) as i8;
        i /= 36;
        let (kf, kr) = (1 + ks % 6, 1 + ks / 6);
        let mut p = Pos::empty();
        p.board[sq_at(kf, kr)? as usize] = pc(WHITE, KING);
        let opts = [EMPTY, pc(WHITE, PAWN), pc(WHITE, KNIGHT), pc(BLACK, QUEEN), pc(BLACK, ROOK), pc(BLACK, BISHOP), pc(BLACK, KNIGHT)];
        for (df, dr) in [(-1i8, -1i8), (0, -1), (1, -1), (-1, 0), (1, 0), (-1, 1), (0, 1), (1, 1)] {
            let o = opts[(i % 7) as usize];
            i /= 7;
            let sq = sq_at(kf + df, kr + dr)?;
            if o == pc(WHITE, PAWN) && (row_of(sq) == 0 || row_of(sq) == 7) {
                return None;
            }
            p.board[sq as usize] = o;
        }
        // the black king as far away as possible
        let bk = sq_at(if kf <= 3 { 7 } else { 0 }, if kr <= 3 { 7 } else { 0 })?;
        if p.board[bk as usize] != EMPTY {
            return None;
        }
        p.board[bk as usize] = pc(BLACK, KING);
        p.stm = WHITE;
        if p.is_legal_position() {
            Some(p)
        } else {
            None
        }
    }
}

/// STAR: the white king on a central square; in each of the eight directions nothing, or an own
/// piece next to the king (knight, pawn, or a piece that moves along that line) with an enemy slider
/// behind it: up to eight absolute pins at once, of both kinds, every combination. Black king in a
/// corner. White to move.
pub struct Star;
impl Family for Star {
    fn name(&self) -> String {
        "STAR".into()
    }
    fn len(&self) -> u64 {
        16 * 4u64.pow(8) * 2
    }
    fn decode(&self, mut i: u64) -> Option<Pos> {
        let ks = (i % 16) as i8;
        i /= 16;
        let queens = i % 2 == 1;
        i /= 2;
        let (kf, kr) = (2 + ks % 4, 2 + ks / 4);
        let mut p = Pos::empty();
        p.board[sq_at(kf, kr)? as usize] = pc(WHITE, KING);
        let dirs: [(i8, i8); 8] = [(1, 0), (-1, 0), (0, 1), (0, -1), (1, 1), (1, -1), (-1, 1), (-1, -1)];
        for (d, &(df, dr)) in dirs.iter().enumerate() {
            let opt = i % 4;
            i /= 4;
            if opt == 0 {
                continue;
            }
            let orth = d < 4;
            let own = match opt {
                1 => pc(WHITE, KNIGHT),
                2 => pc(WHITE, if orth { ROOK } else { BISHOP }),
                _ => pc(WHITE, PAWN),
            };
            let near = sq_at(kf + df, kr + dr)?;
            if own == pc(WHITE, PAWN) && (row_of(near) == 0 || row_of(near) == 7) {
                return None;
            }
            let dist = if opt == 2 { 3 } else { 2 };
            let far = sq_at(kf + dist * df, kr + dist * dr)?;
            if p.board[near as usize] != EMPTY || p.board[far as usize] != EMPTY {
                return None;
            }
            p.board[near as usize] = own;
            p.board[far as usize] = pc(BLACK, if queens && d % 2 == 0 { QUEEN } else if orth { ROOK } else { BISHOP });
        }
        // the black king in the first corner that is free and gives a legal position
        p.stm = WHITE;
        for corner in [0u8, 7, 56, 63] {
            if p.board[corner as usize] == EMPTY {
                let mut q = p.clone();
                q.board[corner as usize] = pc(BLACK, KING);
                if q.is_legal_position() {
                    return Some(q);
                }
            }
        }
        None
    }
}

/// RINGCHK: the BLACK king (not to move) on every square that has eight neighbours or lies on the
/// a-file, each neighbour empty or a white pawn or a black rook / knight; a white queen or rook
/// anywhere; the white king in the far corner. White to move: checks against a king whose
/// neighbourhood holds the mover's own pawns (which may or may not attack it) and defenders that can
/// interpose or capture — the `+` / `#` decision when the king cannot move but others can.
pub struct RingChk;
impl Family for RingChk {
    fn name(&self) -> String {
        "RINGCHK".into()
    }
    fn len(&self) -> u64 {
        42 * 4u64.pow(8) * 2 * 64
    }
    fn decode(&self, mut i: u64) -> Option<Pos> {
        let ks = (i % 42) as i8;
        i /= 42;
        // 36 interior squares, then a2..a7
        let (kf, kr) = if ks < 36 { (1 + ks % 6, 1 + ks / 6) } else { (0, 1 + (ks - 36)) };
        let mut p = Pos::empty();
        p.board[sq_at(kf, kr)? as usize] = pc(BLACK, KING);
        let opts = [EMPTY, pc(WHITE, PAWN), pc(BLACK, ROOK), pc(BLACK, KNIGHT)];
        for (df, dr) in [(-1i8, -1i8), (0, -1), (1, -1), (-1, 0), (1, 0), (-1, 1), (0, 1), (1, 1)] {
            let o = opts[(i % 4) as usize];
            i /= 4;
            let sq = match sq_at(kf + df, kr + dr) {
                Some(s) => s,
                None => {
                    if o != EMPTY {
                        return None;
                    }
                    continue;
                }
            };
            if o == pc(WHITE, PAWN) && (row_of(sq) == 0 || row_of(sq) == 7) {
                return None;
            }
            p.board[sq as usize] = o;
        }
        let heavy = if i % 2 == 0 { QUEEN } else { ROOK };
        i /= 2;
        let hsq = (i % 64) as u8;
        if p.board[hsq as usize] != EMPTY {
            return None;
        }
        p.board[hsq as usize] = pc(WHITE, heavy);
        let wk = sq_at(if kf <= 3 { 7 } else { 0 }, if kr <= 3 { 7 } else { 0 })?;
        if p.board[wk as usize] != EMPTY {
            return None;
        }
        p.board[wk as usize] = pc(WHITE, KING);
        p.stm = WHITE;
        if p.is_legal_position() {
            Some(p)
        } else {
            None
        }
    }
}

/// PAWN7: a white pawn on its 7th rank (every file), both kings, one further white piece and one
/// black piece (every pair of kinds from Q R B N) anywhere, both sides to move: promotions and
/// under-promotions with something to lose or to win on the way.
pub struct Pawn7;
impl Family for Pawn7 {
    fn name(&self) -> String {
        "PAWN7".into()
    }
    fn len(&self) -> u64 {
        8 * 64 * 64 * 64 * 64 * 16 * 2
    }
    fn decode(&self, mut i: u64) -> Option<Pos> {
        let mut take = |n: u64| -> u64 {
            let v = i % n;
            i /= n;
            v
        };
        let f = take(8) as i8;
        let wk = take(64) as u8;
        let bk = take(64) as u8;
        let x = take(64) as u8;
        let y = take(64) as u8;
        let kinds = [QUEEN, ROOK, BISHOP, KNIGHT];
        let kx = kinds[take(4) as usize];
        let ky = kinds[take(4) as usize];
        let stm = if take(2) == 0 { WHITE } else { BLACK };
        let mut p = Pos::empty();
        p.board[sq_at(f, 1)? as usize] = pc(WHITE, PAWN);
        for (sq, piece) in [(wk, pc(WHITE, KING)), (bk, pc(BLACK, KING)), (x, pc(WHITE, kx)), (y, pc(BLACK, ky))] {
            if p.board[sq as usize] != EMPTY {
                return None;
            }
            p.board[sq as usize] = piece;
        }
        p.stm = stm;
        if p.is_legal_position() {
            Some(p)
        } else {
            None
        }
    }
}

/// MANY: nine or ten like white pieces (promotions make that legal): all eight squares of one
/// row plus one or two more anywhere, both kings anywhere, optionally one black rook anywhere;
/// both sides to move. For anything that assumes "never more than eight of a kind".
pub struct Many {
    pub kind: u8,
}
impl Family for Many {
    fn name(&self) -> String {
        format!("MANY:{}", kind_letter_lower(self.kind).to_ascii_uppercase())
    }
    fn len(&self) -> u64 {
        6 * 64 * 65 * 64 * 64 * 65 * 2
    }
    fn decode(&self, mut i: u64) -> Option<Pos> {
        let mut take = |n: u64| -> u64 {
            let v = i % n;
            i /= n;
            v
        };
        let row = 1 + take(6) as i8;
        let e1 = take(64) as u8;
        let e2 = take(65) as u8; // 64 = no tenth piece
        let wk = take(64) as u8;
        let bk = take(64) as u8;
        let br = take(65) as u8; // 64 = no black rook
        let stm = take(2) as u8;
        let mut p = Pos::empty();
        for f in 0..8 {
            p.board[sq_at(f, row)? as usize] = pc(WHITE, self.kind);
        }
        let mut put = |sq: u8, piece: u8, p: &mut Pos| -> bool {
            if p.board[sq as usize] != EMPTY {
                return false;
            }
            p.board[sq as usize] = piece;
            true
        };
        if !put(e1, pc(WHITE, self.kind), &mut p) {
            return None;
        }
        if e2 < 64 && (e2 <= e1 || !put(e2, pc(WHITE, self.kind), &mut p)) {
            return None;
        }
        if !put(wk, pc(WHITE, KING), &mut p) || !put(bk, pc(BLACK, KING), &mut p) {
            return None;
        }
        if br < 64 && !put(br, pc(BLACK, ROOK), &mut p) {
            return None;
        }
        p.stm = stm;
        p.full = 60;
        if p.is_legal_position() {
            Some(p)
        } else {
            None
        }
    }
}

/// wraps a family and yields the colour-flipped twin of every member
pub struct Flipped<'a>(pub &'a dyn Family);
impl<'a> Family for Flipped<'a> {
    fn name(&self) -> String {
        format!("flip({})", self.0.name())
    }
    fn len(&self) -> u64 {
        self.0.len()
    }
    fn decode(&self, i: u64) -> Option<Pos> {
        self.0.decode(i).map(|p| p.flip())
    }
}

/// run `visit` over every member of a family in parallel; returns number of members
pub fn for_family(f: &dyn Family, visit: &(dyn Fn(&Pos) + Sync)) -> u64 {
    let count = std::sync::atomic::AtomicU64::new(0);
    par_for(f.len(), 4096, |i| {
        if let Some(p) = f.decode(i) {
            count.fetch_add(1, std::sync::atomic::Ordering::Relaxed);
            visit(&p);
        }
    });
    count.into_inner()
}

pub const MAT3_SIGS: &[&str] = &["KQk", "KRk", "KBk", "KNk", "KPk", "Kkq", "Kkr", "Kkb", "Kkn", "Kkp"];
pub const MAT4_SIGS: &[&str] = &["KQkr", "KRkb", "KRkn", "KPkp", "KBNk", "KNNk", "KRRk", "KQQk", "KBBk", "KPPk", "KQkq"];

/// every `stride`-th index of a family (deterministic sub-lattice)
pub struct Strided<'a>(pub &'a dyn Family, pub u64);
impl<'a> Family for Strided<'a> {
    fn name(&self) -> String {
        format!("{} (every {}th index)", self.0.name(), self.1)
    }
    fn len(&self) -> u64 {
        self.0.len() / self.1
    }
    fn decode(&self, i: u64) -> Option<Pos> {
        self.0.decode(i * self.1)
    }
}
