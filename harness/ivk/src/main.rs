//! ivk — one sub-command per property. `ivk <ID> <quick|thorough>` or `ivk <ID> --replay <file>`.

mod board_checks;
mod c04;
mod common;
mod engine_checks;
mod engine_driver;
mod engine_sched;
mod families;
mod input_checks;
mod pgn_checks;
mod selftest;
mod table_check;
mod uci_checks;

use board_checks::*;
use common::*;
use families::*;
use refchess::*;
use serde_json::{json, Value};
use std::time::Instant;

fn main() {
    let args: Vec<String> = std::env::args().collect();
    if args.len() < 2 {
        eprintln!("usage: ivk <ID|selftest> <quick|thorough> | ivk <ID> --replay <file>");
        std::process::exit(2);
    }
    let id = args[1].as_str();
    if id == "selftest" {
        std::process::exit(selftest::run());
    }
    if std::env::var("IVK_LOUD").is_err() {
        silence_panics();
    }
    if args.len() >= 4 && args[2] == "--replay" {
        std::env::set_var("IVK_NO_EVIDENCE", "1");
        std::env::set_var("IVK_REPLAY_MODE", "1");
        std::process::exit(replay(id, &args[3]));
    }
    if std::env::var("IVK_LOUD").is_err() {
        install_abort_handler(id);
    }
    let tier = match args.get(2).map(|s| s.as_str()) {
        Some("thorough") => Tier::Thorough,
        _ => Tier::Quick,
    };
    let code = match id {
        "C01" => run_board(Prop::C01, tier),
        "C02" => run_board(Prop::C02, tier),
        "C03" => run_board(Prop::C03, tier),
        "C05" => run_board(Prop::C05, tier),
        "C06" => run_board(Prop::C06, tier),
        "C04" => c04::run(tier),
        "C12" => input_checks::run_c12(tier),
        "C13" => input_checks::run_c13(tier),
        "C14" => input_checks::run_c14(tier),
        "C15" => uci_checks::run(tier),
        #[cfg(inkayaku_verif)]
        "C07" => engine_sched::run_c07(tier),
        #[cfg(inkayaku_verif)]
        "C09" => engine_sched::run_c09(tier),
        #[cfg(inkayaku_verif)]
        "C16" => engine_sched::run_c16(tier),
        #[cfg(inkayaku_verif)]
        "C08" => engine_checks::run_c08(tier),
        #[cfg(inkayaku_verif)]
        "C10" => engine_checks::run_c10(tier),
        #[cfg(inkayaku_verif)]
        "C11" => engine_checks::run_c11(tier),
        "C17" => pgn_checks::run(tier),
        "C18" => table_check::run(tier),
        _ => {
            eprintln!("unknown check {}", id);
            2
        }
    };
    std::process::exit(code);
}

fn replay(id: &str, path: &str) -> i32 {
    let text = match std::fs::read_to_string(path) {
        Ok(t) => t,
        Err(e) => {
            eprintln!("cannot read {}: {}", path, e);
            return 2;
        }
    };
    let doc: Value = match serde_json::from_str(&text) {
        Ok(v) => v,
        Err(e) => {
            eprintln!("bad replay json: {}", e);
            return 2;
        }
    };
    let case = &doc["case"];
    match id {
        "C04" => return c04::replay(case),
        "C13" => return input_checks::replay_c13(case),
        "C14" => return input_checks::replay_c14(case),
        "C15" => return uci_checks::replay(case),
        #[cfg(inkayaku_verif)]
        "C08" | "C10" | "C11" => return engine_checks::replay(id, case),
        #[cfg(inkayaku_verif)]
        "C07" => return engine_sched::replay_c07(case),
        #[cfg(inkayaku_verif)]
        "C09" => return engine_sched::replay_c09(case),
        #[cfg(inkayaku_verif)]
        "C16" => return engine_sched::replay_c16(case),
        "C17" => return pgn_checks::replay(case),
        "C18" => return table_check::replay_case(case),
        "C12" => {
            input_checks::replay_c12(case);
        }
        _ => {}
    }
    let rep = Reporter::new(id);
    let started = Instant::now();
    let prop = match id {
        "C01" => Some(Prop::C01),
        "C02" => Some(Prop::C02),
        "C03" => Some(Prop::C03),
        "C05" => Some(Prop::C05),
        "C06" => Some(Prop::C06),
        "C12" => Some(Prop::C12),
        "C14" => Some(Prop::C14),
        _ => None,
    };
    let kind = case["kind"].as_str().unwrap_or("");
    if let Some(prop) = prop {
        let ctx = BoardCtx::new(prop, &rep);
        match kind {
            "state" | "variant" => {
                let fen = case["fen"].as_str().unwrap_or("");
                match Pos::from_fen(fen) {
                    Ok(p) => {
                        visit(&ctx, &p);
                        if kind == "variant" {
                            c06_variants(&ctx, &p);
                        }
                    }
                    Err(e) => {
                        eprintln!("replay fen not canonical: {}", e);
                        return 2;
                    }
                }
            }
            "history" => {
                let fen = case["fen"].as_str().unwrap_or("");
                let depth = case["line"].as_array().map(|a| a.len()).unwrap_or(1);
                if let Ok(p) = Pos::from_fen(fen) {
                    c01_history_dfs(&ctx, &p, depth);
                }
            }
            "long_line" => {
                let fen = case["fen"].as_str().unwrap_or("");
                if let Ok(p) = Pos::from_fen(fen) {
                    long_line(&ctx, &p, case["plies"].as_u64().unwrap_or(3000) as usize, case["rule"].as_u64().unwrap_or(7));
                }
            }
            "long_move_list" => {
                let fen = case["fen"].as_str().unwrap_or("");
                if let Ok(p) = Pos::from_fen(fen) {
                    crate::input_checks::long_list_check(&rep, &p, &std::sync::atomic::AtomicU64::new(0));
                }
            }
            "line" => {
                let fen = case["fen"].as_str().unwrap_or("");
                let depth = case["line"].as_array().map(|a| a.len()).unwrap_or(1);
                if let Ok(p) = Pos::from_fen(fen) {
                    dfs_lines(&ctx, &p, depth);
                }
            }
            "perft" => {
                let fen = case["fen"].as_str().unwrap_or("");
                if let Ok(p) = Pos::from_fen(fen) {
                    c01_perft_root(&ctx, &p, case["depth"].as_u64().unwrap_or(1) as u32);
                }
            }
            "keys" => {
                c06_key_material(&ctx);
            }
            _ => {
                eprintln!("replay kind {:?} not supported for {}", kind, id);
                return 2;
            }
        }
    }
    println!("replay of {}: {} violating case(s) reproduced", path, rep.violation_count());
    let mut cov = Coverage::new();
    cov.states = 1;
    cov.transitions = 1;
    finish(&rep, Tier::Quick, cov, started)
}

const CLOCK_HALVES: &[u64] = &[0, 1, 49, 50, 98, 99, 100, 101, 127, 128, 129, 255, 256, 4095, 4096, 65535, 4294967294];
const CLOCK_FULLS: &[u64] = &[1, 2, 3, 100, 2400, 65535, 2147483648];

fn clock_roots() -> Vec<Pos> {
    [
        "r3k2r/p1ppqpb1/bn2pnp1/3PN3/1p2P3/2N2Q1p/PPPBBPPP/R3K2R w KQkq - 0 1",
        "r3k2r/p1ppqpb1/bn2pnp1/3PN3/1p2P3/2N2Q1p/PPPBBPPP/R3K2R b KQkq - 0 1",
        "rnbqkbnr/ppp1p1pp/8/3pPp2/8/8/PPPP1PPP/RNBQKBNR w KQkq f6 0 3",
        "n1n5/PPPk4/8/8/8/8/4Kppp/5N1N w - - 0 1",
        "n1n5/PPPk4/8/8/8/8/4Kppp/5N1N b - - 0 1",
        "8/8/8/KPp4r/8/8/8/7k w - c6 0 1",
    ]
    .iter()
    .map(|f| Pos::from_fen(f).unwrap())
    .collect()
}

fn run_board(prop: Prop, tier: Tier) -> i32 {
    let started = Instant::now();
    let rep = Reporter::new(prop.id());
    let mut ctx = BoardCtx::new(prop, &rep);
    ctx.render_all = tier == Tier::Thorough;
    let ctx = ctx;
    let mut fams: Vec<Value> = Vec::new();
    let roots = roots();

    // REACH
    let t0 = Instant::now();
    let (full_depth, deep_roots, deep_depth): (usize, Vec<Pos>, usize) = match tier {
        Tier::Quick => (2, ROOT_FENS.iter().take(20).map(|f| Pos::from_fen(f).unwrap()).collect(), 3),
        Tier::Thorough => (4, vec![Pos::startpos()], 5),
    };
    let set_render = |quick: u64, thorough: u64| ctx.render_mod.store(if tier == Tier::Quick { quick } else { thorough }, std::sync::atomic::Ordering::Relaxed);
    set_render(8, 4);
    let (s, t, tp) = reach(&roots, full_depth, &|p, _d| visit(&ctx, p));
    fams.push(json!({"family": format!("REACH({}) of all roots", full_depth), "roots": roots.len(), "states": s, "reference_transitions": t, "transposition_hits": tp, "secs": t0.elapsed().as_secs_f64()}));
    let t0 = Instant::now();
    let (s, t, tp) = reach(&deep_roots, deep_depth, &|p, _d| visit(&ctx, p));
    fams.push(json!({"family": format!("REACH({}) of {} roots", deep_depth, deep_roots.len()), "states": s, "reference_transitions": t, "transposition_hits": tp, "secs": t0.elapsed().as_secs_f64()}));

    // index-decoded families, each with its colour-flipped twin
    let ep = if tier == Tier::Quick { EpFam::quick() } else { EpFam::thorough() };
    let promo = if tier == Tier::Quick { PromoFam::quick() } else { PromoFam::thorough() };
    let castle = CastleFam { blockers: if tier == Tier::Quick { 6 } else { 11 } };
    let mut list: Vec<Box<dyn Family>> = Vec::new();
    for sig in MAT3_SIGS {
        list.push(Box::new(Material::new(sig)));
    }
    if tier == Tier::Thorough {
        for sig in MAT4_SIGS {
            list.push(Box::new(Material::new(sig)));
        }
    }
    let mut hash_obs = (0u64, 0u64);
    for f in list.iter() {
        // 3-piece families: text compared on every eighth state (quick) / every state (thorough);
        // 4-piece families (thorough only): every 64th
        if f.len() > 2 * 64u64.pow(3) {
            set_render(8, 64);
        } else {
            set_render(8, 1);
        }
        let t0 = Instant::now();
        let n = for_family(f.as_ref(), &|p| visit(&ctx, p));
        fams.push(json!({"family": f.name(), "index_space": f.len(), "legal_members": n, "secs": t0.elapsed().as_secs_f64()}));
        if prop == Prop::C06 && tier == Tier::Thorough && f.len() > 2 * 64u64.pow(3) {
            // memory: the big 4-piece families are judged (function of key, injective) one by one
            let (t, d) = c06_finish(&ctx);
            hash_obs.0 += t;
            hash_obs.1 += d;
        }
    }
    // quick tier: properties whose code path does not depend on the castling / promotion geometry
    // take a co-prime sub-lattice of those two families (all of them in thorough runs)
    let strides: [u64; 3] = match (tier, prop) {
        (Tier::Quick, Prop::C05) => [5, 1, 3],
        (Tier::Quick, Prop::C06) => [3, 1, 3],
        (Tier::Quick, Prop::C03) => [3, 1, 1],
        _ => [1, 1, 1],
    };
    set_render(8, 2);
    for (i, f) in [&castle as &dyn Family, &ep, &promo].into_iter().enumerate() {
        let t0 = Instant::now();
        let sf = Strided(f, strides[i]);
        let n = for_family(&sf, &|p| visit(&ctx, p));
        let n2 = for_family(&Flipped(&sf), &|p| visit(&ctx, p));
        fams.push(json!({"family": sf.name(), "index_space": sf.len(), "legal_members": n, "flipped_members": n2, "secs": t0.elapsed().as_secs_f64()}));
    }

    // STAR: up to eight absolute pins around one king
    if matches!(prop, Prop::C01 | Prop::C05 | Prop::C03) || (tier == Tier::Thorough && matches!(prop, Prop::C02 | Prop::C06)) {
        let t0 = Instant::now();
        let fam = Star;
        let sf = Strided(&fam, if tier == Tier::Quick { 7 } else { 1 });
        let n = for_family(&sf, &|p| visit(&ctx, p));
        let n2 = for_family(&Flipped(&sf), &|p| visit(&ctx, p));
        fams.push(json!({"family": sf.name(), "index_space": sf.len(), "legal_members": n, "flipped_members": n2, "secs": t0.elapsed().as_secs_f64()}));
    }

    // KINGRING: crowded kings
    if matches!(prop, Prop::C01 | Prop::C05 | Prop::C14) || (prop == Prop::C02 && tier == Tier::Thorough) {
        let t0 = Instant::now();
        let fam = KingRing;
        let sf = Strided(&fam, if tier == Tier::Quick { 307 } else { 13 });
        let n = for_family(&sf, &|p| visit(&ctx, p));
        let n2 = for_family(&Flipped(&sf), &|p| visit(&ctx, p));
        fams.push(json!({"family": sf.name(), "index_space": sf.len(), "legal_members": n, "flipped_members": n2, "secs": t0.elapsed().as_secs_f64()}));
    }

    // CASTLE2: two enemy pieces in front of the castling king
    if matches!(prop, Prop::C01 | Prop::C02 | Prop::C03 | Prop::C05 | Prop::C06) {
        let t0 = Instant::now();
        let fam = Castle2;
        let sf = Strided(&fam, if tier == Tier::Quick { 5 } else { 1 });
        let n = for_family(&sf, &|p| visit(&ctx, p));
        let n2 = for_family(&Flipped(&sf), &|p| visit(&ctx, p));
        fams.push(json!({"family": sf.name(), "index_space": sf.len(), "legal_members": n, "flipped_members": n2, "secs": t0.elapsed().as_secs_f64()}));
    }

    // PROMO2: two pawns on the 7th, promotions of different pawns onto one square, one of them pinned
    if matches!(prop, Prop::C01 | Prop::C02 | Prop::C03 | Prop::C05 | Prop::C14) {
        let t0 = Instant::now();
        let fam = Promo2;
        let sf = Strided(&fam, if tier == Tier::Quick { 151 } else { 7 });
        let n = for_family(&sf, &|p| visit(&ctx, p));
        let n2 = for_family(&Flipped(&sf), &|p| visit(&ctx, p));
        fams.push(json!({"family": sf.name(), "index_space": sf.len(), "legal_members": n, "flipped_members": n2, "secs": t0.elapsed().as_secs_f64()}));
    }

    // RIGHTSxEP: castling rights of both sides x a pending e.p. square x home-rook captures (complete)
    {
        let t0 = Instant::now();
        let fam = RightsEp;
        let n = for_family(&fam, &|p| visit(&ctx, p));
        let n2 = for_family(&Flipped(&fam), &|p| visit(&ctx, p));
        fams.push(json!({"family": fam.name(), "index_space": fam.len(), "legal_members": n, "flipped_members": n2, "secs": t0.elapsed().as_secs_f64()}));
    }

    set_render(8, 16);
    // EDGE5 (wrap-around geometry), a co-prime sub-lattice
    if matches!(prop, Prop::C01 | Prop::C02 | Prop::C03 | Prop::C05) {
        let t0 = Instant::now();
        let stride: u64 = match (tier, prop) {
            (Tier::Quick, Prop::C01) | (Tier::Quick, Prop::C05) => 1_201,
            (Tier::Quick, _) => 4_801,
            (Tier::Thorough, _) => 37,
        };
        let fam = Edge5;
        let sf = Strided(&fam, stride);
        let n = for_family(&sf, &|p| visit(&ctx, p));
        let n2 = for_family(&Flipped(&sf), &|p| visit(&ctx, p));
        fams.push(json!({"family": sf.name(), "index_space": sf.len(), "legal_members": n, "flipped_members": n2, "secs": t0.elapsed().as_secs_f64()}));
    }

    // MANY (nine or ten like pieces), co-prime sub-lattices
    if matches!(prop, Prop::C01 | Prop::C02 | Prop::C03 | Prop::C06) {
        let t0 = Instant::now();
        let mut n_total = 0u64;
        for kind in [KNIGHT, BISHOP, ROOK, QUEEN] {
            let fam = Many { kind };
            let target: u64 = if tier == Tier::Quick { 400_000 } else { 8_000_000 };
            let stride = (fam.len() / target).max(1) | 1;
            let sf = Strided(&fam, stride);
            n_total += for_family(&sf, &|p| visit(&ctx, p));
            n_total += for_family(&Flipped(&sf), &|p| visit(&ctx, p));
        }
        fams.push(json!({"family": "MANY:{N,B,R,Q} sub-lattices and flips (nine or ten like pieces)", "legal_members": n_total, "secs": t0.elapsed().as_secs_f64()}));
    }

    // CHK5 (pawn check + slider + defender), a co-prime sub-lattice
    if matches!(prop, Prop::C01 | Prop::C05) {
        let t0 = Instant::now();
        let stride: u64 = if tier == Tier::Quick { 307 } else { 7 };
        let fam = Chk5;
        let sf = Strided(&fam, stride);
        let n = for_family(&sf, &|p| visit(&ctx, p));
        let n2 = for_family(&Flipped(&sf), &|p| visit(&ctx, p));
        fams.push(json!({"family": sf.name(), "index_space": sf.len(), "legal_members": n, "flipped_members": n2, "secs": t0.elapsed().as_secs_f64()}));
    }

    // DPBLOCK (slider check that only a pawn's double step can block) and PUSHCHK (double push that
    // checks and can be taken en passant): the rare sole-reply shapes
    if matches!(prop, Prop::C01 | Prop::C05) {
        let t0 = Instant::now();
        let fam = DpBlock;
        let sf = Strided(&fam, if tier == Tier::Quick { 4_999 } else { 97 });
        let n = for_family(&sf, &|p| visit(&ctx, p));
        let n2 = for_family(&Flipped(&sf), &|p| visit(&ctx, p));
        fams.push(json!({"family": sf.name(), "index_space": sf.len(), "legal_members": n, "flipped_members": n2, "secs": t0.elapsed().as_secs_f64()}));
        let t0 = Instant::now();
        for (fam, stride) in [(EpPin { edge_only: false }, if tier == Tier::Quick { 4_001u64 } else { 23 }), (EpPin { edge_only: true }, if tier == Tier::Quick { 211 } else { 3 })] {
            let sf = Strided(&fam, stride);
            let n = for_family(&sf, &|p| visit(&ctx, p));
            let n2 = for_family(&Flipped(&sf), &|p| visit(&ctx, p));
            fams.push(json!({"family": sf.name(), "index_space": sf.len(), "legal_members": n, "flipped_members": n2, "secs": t0.elapsed().as_secs_f64()}));
        }
        if tier == Tier::Quick {
            // (the thorough tier runs the full EP family with these extras)
            let t0 = Instant::now();
            let fam = EpFam { extras: vec![(pc(BLACK, ROOK), false), (pc(BLACK, QUEEN), false), (pc(BLACK, BISHOP), false)] };
            let sf = Strided(&fam, 23);
            let n = for_family(&sf, &|p| visit(&ctx, p));
            let n2 = for_family(&Flipped(&sf), &|p| visit(&ctx, p));
            fams.push(json!({"family": format!("{} with an enemy rook / queen / bishop anywhere and the king anywhere (one or two capturing pawns, one of them possibly pinned)", sf.name()), "index_space": sf.len(), "legal_members": n, "flipped_members": n2, "secs": t0.elapsed().as_secs_f64()}));
        }
        let t0 = Instant::now();
        let fam = EpDiag;
        let sf = Strided(&fam, if tier == Tier::Quick { 3_001 } else { 101 });
        let n = for_family(&sf, &|p| visit(&ctx, p));
        let n2 = for_family(&Flipped(&sf), &|p| visit(&ctx, p));
        fams.push(json!({"family": sf.name(), "index_space": sf.len(), "legal_members": n, "flipped_members": n2, "secs": t0.elapsed().as_secs_f64()}));
        let t0 = Instant::now();
        let fam = PushChk;
        let sf = Strided(&fam, if tier == Tier::Quick { 401 } else { 11 });
        // the positions AFTER the double push: in check, e.p. available
        let after_push = |p: &Pos| {
            for m in p.legal() {
                if m.piece == PAWN && (m.from as i32 - m.to as i32).abs() == 16 {
                    let q = p.make(&m);
                    visit(&ctx, &q);
                    visit(&ctx, &q.flip());
                }
            }
        };
        let n = for_family(&sf, &after_push);
        fams.push(json!({"family": format!("{} — successors of the double push, and flips", sf.name()), "legal_members": n, "secs": t0.elapsed().as_secs_f64()}));
    }

    // CLOCKS
    if matches!(prop, Prop::C02 | Prop::C03 | Prop::C06 | Prop::C12) {
        let t0 = Instant::now();
        let cr = clock_roots();
        let before = ctx.states.load(std::sync::atomic::Ordering::Relaxed);
        par_map(&cr, |p| {
            // C03 is stated for half-move clocks 0..4095 (the width of the undo field)
            let halves: Vec<u64> = CLOCK_HALVES.iter().copied().filter(|h| prop != Prop::C03 || *h <= 4095).collect();
            clock_sweep(&ctx, p, &halves, CLOCK_FULLS);
            if prop == Prop::C03 {
                let all: Vec<u64> = (0..4096).collect();
                clock_sweep(&ctx, p, &all, &[1, 77]);
            }
        });
        let after = ctx.states.load(std::sync::atomic::Ordering::Relaxed);
        fams.push(json!({"family": "CLOCKS", "roots": cr.len(), "states": after - before, "halves": CLOCK_HALVES, "fulls": CLOCK_FULLS, "c03_exhaustive_halfmove_0_4095": prop == Prop::C03, "secs": t0.elapsed().as_secs_f64()}));
    }

    // C02 also through the list entry point: long lists with repeated tokens on every root
    if prop == Prop::C02 {
        let t0 = Instant::now();
        let n = std::sync::atomic::AtomicU64::new(0);
        par_map(&roots, |p| crate::input_checks::long_list_check(&rep, p, &n));
        fams.push(json!({"family": "make_all_uci on shuffle lists of 5..41 plies with repeated tokens, with and without an impossible last token", "lists": n.load(std::sync::atomic::Ordering::Relaxed), "secs": t0.elapsed().as_secs_f64()}));
    }

    // property-specific extras
    let mut extra_states = 0u64;
    match prop {
        Prop::C01 => {
            let t0 = Instant::now();
            par_map(&roots, |p| c01_perft_root(&ctx, p, 3));
            fams.push(json!({"family": "perft(1..3) on every root vs reference perft", "roots": roots.len(), "secs": t0.elapsed().as_secs_f64()}));
            let t0 = Instant::now();
            let d = if tier == Tier::Quick { 3 } else { 4 };
            let nodes: u64 = par_map_fine(&roots, |p| c01_history_dfs(&ctx, p, d)).iter().sum();
            extra_states += nodes;
            fams.push(json!({"family": format!("histories: legal move sets along the subject's own make sequences, depth <= {} from every root", d), "roots": roots.len(), "nodes": nodes, "secs": t0.elapsed().as_secs_f64()}));
        }
        Prop::C03 | Prop::C06 => {
            let t0 = Instant::now();
            let d = if tier == Tier::Quick { 3 } else { 4 };
            let nodes: u64 = par_map(&roots, |p| dfs_lines(&ctx, p, d)).iter().sum();
            extra_states += nodes;
            fams.push(json!({"family": format!("depth-first make^j/unmake^j lines on one board instance, j<={}", d), "roots": roots.len(), "nodes": nodes, "secs": t0.elapsed().as_secs_f64()}));
        }
        _ => {}
    }
    if matches!(prop, Prop::C02 | Prop::C03 | Prop::C06) {
        let t0 = Instant::now();
        let plies = if tier == Tier::Quick { 3_000 } else { 12_000 };
        let walk_roots: Vec<Pos> = ROOT_FENS.iter().take(10).map(|f| Pos::from_fen(f).unwrap()).collect();
        let jobs: Vec<(usize, u64)> = (0..walk_roots.len()).flat_map(|i| [(i, 7u64), (i, 1_000_003u64)]).collect();
        let made: u64 = par_map_fine(&jobs, |&(i, rule)| long_line(&ctx, &walk_roots[i], plies, rule)).iter().sum();
        extra_states += made;
        fams.push(json!({"family": format!("long lines on one board instance: up to {} plies made then unmade in reverse (2 fixed move-choice rules x 10 roots)", plies), "plies_made": made, "secs": t0.elapsed().as_secs_f64()}));
    }
    if prop == Prop::C06 {
        let t0 = Instant::now();
        let n = c06_key_material(&ctx);
        fams.push(json!({"family": "key material (781 keys pairwise, all pair-xors)", "comparisons": n, "secs": t0.elapsed().as_secs_f64()}));
        // single-component variants on REACH(1) of roots + a MAT3 sub-lattice
        let t0 = Instant::now();
        let mut vs: Vec<Pos> = Vec::new();
        let vdepth = if tier == Tier::Quick { 1 } else { 2 };
        let collect = std::sync::Mutex::new(Vec::new());
        reach(&roots, vdepth, &|p, _| collect.lock().unwrap().push(p.clone()));
        vs.extend(collect.into_inner().unwrap());
        let variants: u64 = par_map(&vs, |p| c06_variants(&ctx, p)).iter().sum();
        fams.push(json!({"family": format!("single-component variants of REACH({})", vdepth), "states": vs.len(), "variants": variants, "secs": t0.elapsed().as_secs_f64()}));
        let (total, distinct) = c06_finish(&ctx);
        fams.push(json!({"family": "hash as function of key / injective on explored set (big 4-piece families judged one by one)", "observations": total + hash_obs.0, "distinct_keys": distinct + hash_obs.1}));
    }

    let mut cov = Coverage::new();
    cov.states = ctx.states.load(std::sync::atomic::Ordering::Relaxed) + extra_states;
    cov.transitions = ctx.transitions.load(std::sync::atomic::Ordering::Relaxed);
    cov.traces_validated = cov.transitions;
    cov.set("families", json!(fams));
    cov.set("non_vacuity_counters", ctx.counters.to_json());
    cov.set("exhaustive_note", json!("every listed family was enumerated completely (no cap, no sampling); the union of families is not all of chess"));
    cov.samples = vec![
        json!({"state": roots[1].to_fen(), "what": "every state is rebuilt in the subject from the reference FEN and all oracles of this property are evaluated on it and on each of its moves"}),
        json!({"state": Material::new("KQk").decode(2 * (10 + 64 * (20 + 64 * 30))).map(|p| p.to_fen())}),
    ];
    cov.assumptions = vec![
        "reference model refchess (self-tested against published perft numbers)".into(),
        "positions outside the enumerated families are not covered".into(),
    ];
    // vacuity
    let need: &[&str] = match prop {
        Prop::C01 | Prop::C02 | Prop::C05 | Prop::C06 | Prop::C14 => &["castle_WK", "castle_WQ", "castle_BK", "castle_BQ", "ep_captures", "promotions", "capture_promotions", "mates", "stalemates", "double_check_states", "check_by_pawn", "check_by_knight", "check_by_bishop", "check_by_rook", "check_by_queen"],
        Prop::C03 => &["illegal_pseudo_moves_unmade"],
        Prop::C12 => &["ep_states", "rights_KQkq", "rights_-", "rights_Kq"],
    };
    for k in need {
        if ctx.counters.get(k) == 0 {
            rep.machinery(format!("vacuous: counter {} is zero", k));
        }
    }
    if prop == Prop::C05 {
        for k in ["states_whose_only_legal_moves_are_double_pawn_steps", "states_whose_only_legal_moves_are_en_passant_captures", "states_whose_only_legal_moves_are_promotions", "stalemates_with_a_pseudo_legal_en_passant_capture", "stalemates_with_an_en_passant_capture_that_would_open_a_diagonal"] {
            if ctx.counters.get(k) == 0 {
                rep.machinery(format!("vacuous: counter {} is zero", k));
            }
        }
    }
    finish(&rep, tier, cov, started)
}
