//! Closing the engine: driver (acts as GUI through the real `Engine::accept`), poll gate
//! (controlled scheduler of the search thread's only synchronisation points), virtual clock.
//! See DESIGN §2.6.

#![cfg(inkayaku_verif)]
#![allow(dead_code)]

use crate::common::*;
use inkayaku_engine_core::verif::{hook_claimed, offer_hook, SearchHook};
use inkayaku_engine_core::Engine;
use inkayaku_uci::console::ConsoleUciTx;
use inkayaku_uci::parser::CommandParser;
use inkayaku_uci::{Info, ProtectionMessage, Score, UciCommand, UciEngine, UciMove, UciTx};
use std::sync::mpsc::{channel, Receiver, Sender};
use std::sync::{Arc, Mutex};
use std::thread::ThreadId;
use std::time::Duration;

#[derive(Debug, Clone)]
pub enum Ev {
    Info(Info),
    Best(Option<String>, Option<String>),
    ReadyOk,
    Other(String),
    Line(String),
    Parked(u64),
    Board(&'static str, String),
    ThreadGone,
    ThreadStarted(ThreadId),
}

pub fn mv_text(m: &UciMove) -> String {
    let mut s = format!("{}{}", m.source.fen, m.target.fen);
    if let Some(p) = &m.promote_to {
        s.push(p.fen);
    }
    s
}

/// records structured events and, through the REAL console transmitter, the text lines
pub struct RecTx {
    tx: Mutex<Sender<Ev>>,
    console: ConsoleUciTx<Box<dyn Fn(&str) + Send + Sync>, Box<dyn Fn(&str) + Send + Sync>>,
}

impl RecTx {
    pub fn new(tx: Sender<Ev>, debug: bool) -> Self {
        let t1 = Mutex::new(tx.clone());
        let t2 = Mutex::new(tx.clone());
        let out: Box<dyn Fn(&str) + Send + Sync> = Box::new(move |s: &str| {
            let _ = t1.lock().unwrap().send(Ev::Line(s.to_string()));
        });
        let err: Box<dyn Fn(&str) + Send + Sync> = Box::new(move |s: &str| {
            let _ = t2.lock().unwrap().send(Ev::Other(format!("stderr: {}", s)));
        });
        RecTx { tx: Mutex::new(tx), console: ConsoleUciTx::new(out, err, debug) }
    }
    fn send(&self, e: Ev) {
        let _ = self.tx.lock().unwrap().send(e);
    }
    pub fn set_debug(&self, d: bool) {
        self.console.set_debug(d);
    }
}

impl UciTx for RecTx {
    fn id_name(&self, name: &str) {
        self.send(Ev::Other(format!("id name {}", name)));
        self.console.id_name(name);
    }
    fn id_author(&self, author: &str) {
        self.send(Ev::Other(format!("id author {}", author)));
        self.console.id_author(author);
    }
    fn uci_ok(&self) {
        self.send(Ev::Other("uciok".into()));
        self.console.uci_ok();
    }
    fn ready_ok(&self) {
        self.send(Ev::ReadyOk);
        self.console.ready_ok();
    }
    fn best_move(&self, b: Option<UciMove>, p: Option<UciMove>) {
        // line first, structured event last: the structured BestMove ends a `go`
        self.console.best_move(b.clone(), p.clone());
        self.send(Ev::Best(b.as_ref().map(mv_text), p.as_ref().map(mv_text)));
    }
    fn copy_protection(&self, c: ProtectionMessage) {
        self.console.copy_protection(c);
    }
    fn registration(&self, r: ProtectionMessage) {
        self.console.registration(r);
    }
    fn info(&self, info: &Info) {
        self.send(Ev::Info(info.clone()));
        self.console.info(info);
    }
    fn option_check(&self, n: &str, d: bool) {
        self.console.option_check(n, d);
    }
    fn option_spin(&self, n: &str, d: i32, mi: i32, ma: i32) {
        self.console.option_spin(n, d, mi, ma);
    }
    fn option_combo(&self, n: &str, d: &str, v: &[&str]) {
        self.console.option_combo(n, d, v);
    }
    fn option_button(&self, n: &str) {
        self.console.option_button(n);
    }
    fn option_string(&self, n: &str, d: &str) {
        self.console.option_string(n, d);
    }
    fn debug(&self, m: &str) {
        self.console.debug(m);
    }
}

// ---------------------------------------------------------------------------------------
// hook

#[derive(Clone, Debug)]
pub enum Clock {
    /// the real clock
    Real,
    /// virtual: elapsed = ns_per_node * total_nodes, plus jumps (from clock read index i on,
    /// add `extra`)
    Rate { ns_per_node: u64, jumps: Vec<(u64, Duration)> },
    /// virtual: `before` until poll number k of this go begins, `after` from then on
    AtPoll { k: u64, before: Duration, after: Duration },
    /// virtual, by clock-read index (1-based): the value of the last step whose index <= read index
    /// (zero before the first step)
    ByRead { steps: Vec<(u64, Duration)> },
}

/// gate numbers from here on mean "park at clock read number (gate - READ_GATE)" instead of a poll
pub const READ_GATE: u64 = 1 << 40;
/// gate number of "park when the search of this `go` starts, before its first node" (a message
/// delivered here is already waiting in the channel when the search begins)
pub const START_GATE: u64 = 1 << 41;

#[derive(Clone, Debug)]
pub struct Plan {
    /// None = the original rule (every 100 000 negamax nodes); Some((interval, min_nodes))
    pub poll: Option<(u64, u64)>,
    pub clock: Clock,
    /// 1-based poll indices of this `go` at which the search thread parks; READ_GATE + r parks at the
    /// r-th clock read instead
    pub gates: Vec<u64>,
}

impl Plan {
    pub fn free() -> Plan {
        Plan { poll: None, clock: Clock::Real, gates: vec![] }
    }
    pub fn virtual_rate(ns_per_node: u64) -> Plan {
        Plan { poll: None, clock: Clock::Rate { ns_per_node, jumps: vec![] }, gates: vec![] }
    }
}

#[derive(Default, Debug, Clone)]
pub struct Counters {
    pub polls: u64,
    pub clock_reads: u64,
    pub max_negamax_nodes: u64,
    pub last_poll_nodes: u64,
    /// negamax node count at each poll (only kept when the plan asks for it)
    pub poll_nodes: Vec<u64>,
    /// max_negamax_nodes at the moment the thread parked at a clock-read gate
    pub nodes_at_read_park: Option<u64>,
}

pub struct Shared {
    pub plan: Mutex<Plan>,
    pub counters: Mutex<Counters>,
    pub keep_poll_nodes: Mutex<bool>,
}

struct Hook {
    shared: Arc<Shared>,
    tx: Sender<Ev>,
    release: Receiver<()>,
    announced: bool,
}

impl Hook {
    fn announce(&mut self) {
        if !self.announced {
            self.announced = true;
            let _ = self.tx.send(Ev::ThreadStarted(std::thread::current().id()));
        }
    }
}

impl SearchHook for Hook {
    fn poll(&mut self, negamax_nodes: u64, original: bool) -> Option<bool> {
        self.announce();
        let (scaled, gates_empty) = {
            let p = self.shared.plan.lock().unwrap();
            (p.poll, p.gates.is_empty())
        };
        {
            let mut c = self.shared.counters.lock().unwrap();
            if negamax_nodes > c.max_negamax_nodes {
                c.max_negamax_nodes = negamax_nodes;
            }
        }
        // unscaled plans keep the product's own poll rule in force (its decision is `original`);
        // scaled plans replace it by "every `interval` nodes from `min_nodes` on"
        let polls_now = match scaled {
            None => original,
            Some((interval, min_nodes)) => negamax_nodes > 0 && negamax_nodes % interval == 0 && negamax_nodes >= min_nodes,
        };
        if !polls_now {
            return Some(false);
        }
        let k = {
            let mut c = self.shared.counters.lock().unwrap();
            c.polls += 1;
            c.last_poll_nodes = negamax_nodes;
            if *self.shared.keep_poll_nodes.lock().unwrap() {
                c.poll_nodes.push(negamax_nodes);
            }
            c.polls
        };
        if !gates_empty {
            let gated = self.shared.plan.lock().unwrap().gates.contains(&k);
            if gated {
                let _ = self.tx.send(Ev::Parked(k));
                // parked until the driver has delivered its messages through Engine::accept
                let _ = self.release.recv();
            }
        }
        Some(true)
    }

    fn elapsed(&mut self, total_nodes: u64) -> Option<Duration> {
        let (answer, idx, gated) = {
            let p = self.shared.plan.lock().unwrap();
            let mut c = self.shared.counters.lock().unwrap();
            c.clock_reads += 1;
            let idx = c.clock_reads;
            let answer = match &p.clock {
                Clock::Real => None,
                Clock::Rate { ns_per_node, jumps } => {
                    let mut d = Duration::from_nanos(ns_per_node.saturating_mul(total_nodes));
                    for (from, extra) in jumps {
                        if idx >= *from {
                            d += *extra;
                        }
                    }
                    Some(d)
                }
                Clock::AtPoll { k, before, after } => Some(if c.polls >= *k { *after } else { *before }),
                Clock::ByRead { steps } => {
                    let mut d = Duration::ZERO;
                    for (from, v) in steps {
                        if idx >= *from {
                            d = *v;
                        }
                    }
                    Some(d)
                }
            };
            let gated = p.gates.contains(&(READ_GATE + idx));
            if gated {
                c.nodes_at_read_park = Some(c.max_negamax_nodes);
            }
            (answer, idx, gated)
        };
        if gated {
            // a clock read is the other place where the search thread is observable from outside:
            // park here so that messages can arrive between two polls
            let _ = self.tx.send(Ev::Parked(READ_GATE + idx));
            let _ = self.release.recv();
        }
        answer
    }

    fn board(&mut self, when: &'static str, fen: &str) {
        self.announce();
        if when == "before_search" {
            // for the abort handler: what this search thread is working on
            set_current_case(&format!("engine search, position held by the search thread: {}", fen));
        }
        if when == "before_search" {
            let mut c = self.shared.counters.lock().unwrap();
            *c = Counters::default();
        }
        let _ = self.tx.send(Ev::Board(when, fen.to_string()));
        if when == "before_search" && self.shared.plan.lock().unwrap().gates.contains(&START_GATE) {
            let _ = self.tx.send(Ev::Parked(START_GATE));
            let _ = self.release.recv();
        }
    }
}

impl Drop for Hook {
    fn drop(&mut self) {
        // runs when the search thread ends (normally after quit, or by unwinding after a panic)
        let _ = self.tx.send(Ev::ThreadGone);
    }
}

static CREATE: Mutex<()> = Mutex::new(());

#[derive(Debug, Clone, PartialEq)]
pub enum GateAction {
    Stop,
    Quit,
    IsReady,
    Debug(bool),
    NewGame,
    PonderHit,
    /// a command line parsed by the real parser
    Line(String),
}

#[derive(Debug, Clone, Default)]
pub struct GoObs {
    pub infos: Vec<Info>,
    pub lines: Vec<String>,
    pub best: Vec<(Option<String>, Option<String>)>,
    pub before_fen: Option<String>,
    pub after_fen: Option<String>,
    pub counters: Counters,
    pub thread_died: Option<String>,
    pub timed_out: bool,
    pub readyoks: usize,
    pub parked_at: Vec<u64>,
    pub quit_sent: bool,
}

pub struct Session {
    engine: Option<Engine<RecTx>>,
    pub tx_handle: Arc<RecTx>,
    rx: Receiver<Ev>,
    release_tx: Sender<()>,
    pub shared: Arc<Shared>,
    pub search_thread: Option<ThreadId>,
    pub dead: bool,
    /// events that arrived outside a `go` (must stay empty of BestMove)
    pub stray: Vec<Ev>,
}

impl Session {
    pub fn new(debug: bool) -> Session {
        let (tx, rx) = channel::<Ev>();
        let (release_tx, release_rx) = channel::<()>();
        let shared = Arc::new(Shared { plan: Mutex::new(Plan::free()), counters: Mutex::new(Counters::default()), keep_poll_nodes: Mutex::new(false) });
        let rec = Arc::new(RecTx::new(tx.clone(), debug));
        let engine = {
            let _g = CREATE.lock().unwrap_or_else(|e| e.into_inner());
            offer_hook(Box::new(Hook { shared: shared.clone(), tx: tx.clone(), release: release_rx, announced: false }));
            let e = Engine::new(rec.clone(), debug);
            let t0 = std::time::Instant::now();
            while !hook_claimed() {
                std::thread::yield_now();
                if t0.elapsed() > Duration::from_secs(20) {
                    panic!("search thread did not claim its hook");
                }
            }
            e
        };
        Session { engine: Some(engine), tx_handle: rec, rx, release_tx, shared, search_thread: None, dead: false, stray: Vec::new() }
    }

    /// deliver a command through the real `Engine::accept`; false if that panicked (dead thread)
    pub fn accept(&mut self, cmd: UciCommand) -> bool {
        if let UciCommand::SetDebug { debug } = &cmd {
            self.tx_handle.set_debug(*debug); // what engine_app's main does
        }
        let e = self.engine.as_mut().unwrap();
        guarded(|| e.accept(cmd)).is_ok()
    }

    /// parse with the real parser, then accept
    pub fn line(&mut self, line: &str) -> bool {
        match guarded(|| CommandParser::new(line).parse()) {
            Ok(Ok(cmd)) => self.accept(cmd),
            _ => false,
        }
    }

    fn drain_stray(&mut self) {
        while let Ok(ev) = self.rx.try_recv() {
            self.note_ev(&ev);
            self.stray.push(ev);
        }
    }

    fn note_ev(&mut self, ev: &Ev) {
        match ev {
            Ev::ThreadStarted(id) => self.search_thread = Some(*id),
            Ev::ThreadGone => self.dead = true,
            _ => {}
        }
    }

    /// one `go`: installs the plan, sends the command, serves the gates, collects everything up to
    /// and including BestMove. `actions(k)` lists what the GUI sends while the search is parked at
    /// poll k.
    pub fn go(&mut self, go_line: &str, plan: Plan, actions: &dyn Fn(u64) -> Vec<GateAction>) -> GoObs {
        self.drain_stray();
        let mut obs = GoObs::default();
        *self.shared.plan.lock().unwrap() = plan;
        if !self.line(go_line) {
            obs.thread_died = Some("Engine::accept(go) failed (search thread gone or parse error)".into());
            return obs;
        }
        let wall = std::time::Instant::now();
        let limit = Duration::from_secs(std::env::var("IVK_GO_TIMEOUT").ok().and_then(|s| s.parse().ok()).unwrap_or(60));
        loop {
            let ev = match self.rx.recv_timeout(Duration::from_millis(200)) {
                Ok(ev) => ev,
                Err(_) => {
                    if wall.elapsed() > limit {
                        obs.timed_out = true;
                        break;
                    }
                    continue;
                }
            };
            self.note_ev(&ev);
            match ev {
                Ev::Info(i) => obs.infos.push(i),
                Ev::Line(l) => obs.lines.push(l),
                Ev::ReadyOk => obs.readyoks += 1,
                Ev::Other(_) => {}
                Ev::Board(when, fen) => {
                    if when == "before_search" {
                        obs.before_fen = Some(fen)
                    } else {
                        obs.after_fen = Some(fen)
                    }
                }
                Ev::Best(b, p) => {
                    obs.best.push((b, p));
                    break;
                }
                Ev::Parked(k) => {
                    obs.parked_at.push(k);
                    let mut quit = false;
                    for a in actions(k) {
                        match a {
                            GateAction::Stop => {
                                self.accept(UciCommand::Stop);
                            }
                            GateAction::IsReady => {
                                self.accept(UciCommand::IsReady);
                            }
                            GateAction::Debug(d) => {
                                self.accept(UciCommand::SetDebug { debug: d });
                            }
                            GateAction::NewGame => {
                                self.accept(UciCommand::UciNewGame);
                            }
                            GateAction::PonderHit => {
                                self.accept(UciCommand::PonderHit);
                            }
                            GateAction::Line(l) => {
                                self.line(&l);
                            }
                            GateAction::Quit => quit = true,
                        }
                    }
                    if quit {
                        // Engine::accept(Quit) sends the message and then joins the search thread, so
                        // the gate has to open while accept is running: a helper opens it a moment
                        // after the send. If it opened too early the quit is seen one poll later —
                        // the oracle uses the observed final poll count, never the intended one.
                        let rel = self.release_tx.clone();
                        let h = std::thread::spawn(move || {
                            std::thread::sleep(Duration::from_millis(3));
                            let _ = rel.send(());
                        });
                        obs.quit_sent = true;
                        self.accept(UciCommand::Quit);
                        let _ = h.join();
                        self.engine_quit_done();
                        // collect what was sent before the thread ended
                        while let Ok(ev) = self.rx.recv_timeout(Duration::from_millis(50)) {
                            self.note_ev(&ev);
                            match ev {
                                Ev::Info(i) => obs.infos.push(i),
                                Ev::Line(l) => obs.lines.push(l),
                                Ev::Best(b, p) => obs.best.push((b, p)),
                                Ev::Board(when, fen) => {
                                    if when == "after_search" {
                                        obs.after_fen = Some(fen)
                                    }
                                }
                                Ev::ThreadGone => break,
                                _ => {}
                            }
                        }
                        break;
                    } else {
                        let _ = self.release_tx.send(());
                    }
                }
                Ev::ThreadGone => {
                    let msg = self.search_thread.and_then(last_panic_of).unwrap_or_else(|| "search thread ended".into());
                    obs.thread_died = Some(msg);
                    break;
                }
                Ev::ThreadStarted(_) => {}
            }
        }
        obs.counters = self.shared.counters.lock().unwrap().clone();
        obs
    }

    fn engine_quit_done(&mut self) {
        self.dead = true;
    }

    /// after a `go`, everything still queued (a second BestMove would show up here)
    pub fn settle(&mut self, wait: Duration) -> Vec<Ev> {
        let mut v = Vec::new();
        while let Ok(ev) = self.rx.recv_timeout(wait) {
            self.note_ev(&ev);
            v.push(ev);
        }
        v
    }

    /// quit (joins the search thread); returns events that arrived late and whether the join worked
    pub fn quit(mut self) -> (Vec<Ev>, bool) {
        let mut ok = true;
        if !self.dead {
            // never leave a gate closed
            *self.shared.plan.lock().unwrap() = Plan::free();
            ok = self.accept(UciCommand::Quit);
        }
        let mut late = Vec::new();
        while let Ok(ev) = self.rx.recv_timeout(Duration::from_millis(20)) {
            late.push(ev);
        }
        (late, ok)
    }
}

pub fn score_text(s: &Score) -> String {
    match s {
        Score::Centipawn { score } => format!("cp {}", score),
        Score::CentipawnBounded { score, bound } => format!("cp {} {}", score, bound),
        Score::Mate { mate_in } => format!("mate {}", mate_in),
    }
}
