//! C12 (rejections / totality), C13 (move strings), C14 (SAN grammar): bounded-exhaustive input
//! families judged by three-valued reference oracles.

use crate::board_checks::{decode_matches, short, visit, BoardCtx, Prop};
use crate::common::*;
use crate::families::*;
use inkayaku_board::{Bitboard, MoveFromUciError};
use inkayaku_core::fen::Fen;
use refchess::fen::{classify, FenClass};
use refchess::san::{resolve_with, san, SanFields, SanVerdict};
use refchess::*;
use serde_json::{json, Value};
use std::collections::HashSet;
use std::str::FromStr;
use std::sync::atomic::{AtomicU64, Ordering};
use std::time::Instant;

// =======================================================================================
// C12

const FEN_BASES: &[&str] = &[
    "rnbqkbnr/pppppppp/8/8/8/8/PPPPPPPP/RNBQKBNR w KQkq - 0 1",
    "r3k2r/p1ppqpb1/bn2pnp1/3PN3/1p2P3/2N2Q1p/PPPBBPPP/R3K2R w KQkq - 0 1",
    "rnbqkbnr/ppp1p1pp/8/3pPp2/8/8/PPPP1PPP/RNBQKBNR w KQkq f6 0 3",
    "8/2p5/3p4/KP5r/1R3p1k/8/4P1P1/8 b - - 12 34",
    "r3k2r/8/8/8/8/8/8/R3K2R b Kq - 99 120",
    "8/8/8/2k5/3Pp3/8/8/4K3 b - d3 0 57",
    "n1n5/PPPk4/8/8/8/8/4Kppp/5N1N w - -",
    "4k3/8/8/8/8/8/8/4K2R w K - 100 4000",
    "1k6/8/8/8/8/8/8/R3K3 w Q -",
    "r3k3/8/8/8/8/8/8/4K3 b q - 4294967295 4294967295",
    "4k2r/8/8/8/8/8/8/4K3 b k - 7 7",
    "rnbq1rk1/pp2ppbp/3p1np1/2p5/2PPP3/2N2N2/PP2BPPP/R1BQ1RK1 w - c6 0 7",
];

/// 42 replacement characters
const FEN_ALPHABET: &[char] = &[
    'P', 'N', 'B', 'R', 'Q', 'K', 'p', 'n', 'b', 'r', 'q', 'k', '0', '1', '2', '3', '4', '5', '6', '7', '8', '9', '/', ' ', '-', 'w', 'a', 'c', 'h', 'i', 'A', 'H', 'x', 'W', 'e', '+', '.', '\t', 'é', '٣', 'Ⅷ', 'g',
];

fn fen_mutants(base: &str, out: &mut Vec<String>) {
    let chars: Vec<char> = base.chars().collect();
    // replacements, deletions, insertions
    for i in 0..chars.len() {
        for &c in FEN_ALPHABET {
            if chars[i] != c {
                let mut v = chars.clone();
                v[i] = c;
                out.push(v.into_iter().collect());
            }
        }
        let mut v = chars.clone();
        v.remove(i);
        out.push(v.into_iter().collect());
    }
    for i in 0..=chars.len() {
        for &c in FEN_ALPHABET {
            let mut v = chars.clone();
            v.insert(i, c);
            out.push(v.into_iter().collect());
        }
    }
    // field level
    let fields: Vec<&str> = base.split(' ').collect();
    for i in 0..fields.len() {
        let mut f = fields.clone();
        f.remove(i);
        out.push(f.join(" "));
        let mut f = fields.clone();
        f.insert(i, fields[i]);
        out.push(f.join(" "));
        for j in (i + 1)..fields.len() {
            let mut f = fields.clone();
            f.swap(i, j);
            out.push(f.join(" "));
        }
    }
    // rank count 7 / 9
    let ranks: Vec<&str> = fields[0].split('/').collect();
    for i in 0..ranks.len() {
        let mut r = ranks.clone();
        r.remove(i);
        let mut f = fields.clone();
        let joined = r.join("/");
        f[0] = &joined;
        out.push(f.join(" "));
        let mut r = ranks.clone();
        r.insert(i, "8");
        let joined = r.join("/");
        let mut f = fields.clone();
        f[0] = &joined;
        out.push(f.join(" "));
    }
    // sum-preserving double faults: one rank loses a square, another gains one (the total stays 64),
    // in every way a single character edit can do that; and a '/' swapped with its neighbour
    let shrink = |r: &str| -> Vec<String> {
        let c: Vec<char> = r.chars().collect();
        let mut v = Vec::new();
        for i in 0..c.len() {
            if let Some(d) = c[i].to_digit(10) {
                let mut t = c.clone();
                if d > 1 {
                    t[i] = char::from_digit(d - 1, 10).unwrap();
                } else {
                    t.remove(i);
                }
                v.push(t.into_iter().collect());
            } else {
                let mut t = c.clone();
                t.remove(i);
                v.push(t.into_iter().collect());
            }
        }
        v
    };
    let grow = |r: &str| -> Vec<String> {
        let c: Vec<char> = r.chars().collect();
        let mut v = Vec::new();
        for i in 0..=c.len() {
            for ins in ['P', 'k', 'N'] {
                let mut t = c.clone();
                t.insert(i, ins);
                v.push(t.into_iter().collect());
            }
        }
        for i in 0..c.len() {
            if let Some(d) = c[i].to_digit(10) {
                if d < 8 {
                    let mut t = c.clone();
                    t[i] = char::from_digit(d + 1, 10).unwrap();
                    v.push(t.into_iter().collect());
                }
            }
        }
        v
    };
    for i in 0..ranks.len() {
        for j in 0..ranks.len() {
            if i == j {
                continue;
            }
            for a in shrink(ranks[i]) {
                for b in grow(ranks[j]) {
                    let mut r: Vec<String> = ranks.iter().map(|x| x.to_string()).collect();
                    r[i] = a.clone();
                    r[j] = b;
                    let mut f: Vec<String> = fields.iter().map(|x| x.to_string()).collect();
                    f[0] = r.join("/");
                    out.push(f.join(" "));
                }
            }
        }
    }
    {
        let pc: Vec<char> = fields[0].chars().collect();
        for i in 0..pc.len() {
            if pc[i] == '/' {
                for (a, b) in [(i - 1, i), (i, i + 1)] {
                    if b < pc.len() {
                        let mut t = pc.clone();
                        t.swap(a, b);
                        let mut f: Vec<String> = fields.iter().map(|x| x.to_string()).collect();
                        f[0] = t.into_iter().collect();
                        out.push(f.join(" "));
                    }
                }
            }
        }
    }
    // rank-token permutations: every swap of two rank tokens and every rotation (a token must be
    // decoded according to where it stands, not according to what it looks like)
    for i in 0..ranks.len() {
        for j in (i + 1)..ranks.len() {
            let mut r = ranks.clone();
            r.swap(i, j);
            let mut f: Vec<String> = fields.iter().map(|x| x.to_string()).collect();
            f[0] = r.join("/");
            out.push(f.join(" "));
        }
    }
    for k in 1..ranks.len() {
        let mut r = ranks.clone();
        r.rotate_left(k);
        let mut f: Vec<String> = fields.iter().map(|x| x.to_string()).collect();
        f[0] = r.join("/");
        out.push(f.join(" "));
    }
    // clock magnitudes
    if fields.len() == 6 {
        for clk in ["4294967295", "4294967296", "100000000000000000000", "00", "007", "-1", "+1", "1.5", "", "٣"] {
            for idx in [4, 5] {
                let mut f = fields.clone();
                f[idx] = clk;
                out.push(f.join(" "));
            }
        }
    }
}

fn judge_fen_string(rep: &Reporter, s: &str, counters: &[AtomicU64; 4]) {
    let class = classify(s);
    rep.sample(|| json!({"fen_string": s, "reference_class": format!("{:?}", class).chars().take(80).collect::<String>()}));
    let r_from_str = guarded(|| Fen::from_str(s).is_ok());
    let r_is_valid = guarded(|| Fen::is_valid(s));
    let r_board = guarded(|| Bitboard::from_fen_string(s));
    let case = |extra: Value| -> Value {
        let mut d = json!({"kind": "fen_string", "input": s, "class": format!("{:?}", class).chars().take(60).collect::<String>()});
        if let (Some(o), Some(e)) = (d.as_object_mut(), extra.as_object()) {
            for (k, v) in e {
                o.insert(k.clone(), v.clone());
            }
        }
        d
    };
    // totality first
    for (name, panicked) in [("Fen::from_str", r_from_str.as_ref().err()), ("Fen::is_valid", r_is_valid.as_ref().err()), ("Bitboard::from_fen_string", r_board.as_ref().err())] {
        if let Some(msg) = panicked {
            let what = match &class {
                FenClass::Unspecified { why, .. } => format!(":{}", why),
                FenClass::Invalid(why) => format!(":{}", why),
                _ => String::new(),
            };
            rep.report(format!("panic:{}:{}{}", name, short(msg), what), case(json!({"api": name, "panic": msg})));
        }
    }
    let accepted_fen = r_from_str.clone().unwrap_or(false);
    let accepted_board = matches!(r_board, Ok(Ok(_)));
    if let (Ok(a), Ok(b)) = (&r_from_str, &r_is_valid) {
        if a != b {
            rep.report("is_valid_disagrees_with_from_str".to_string(), case(json!({})));
        }
    }
    match &class {
        FenClass::Invalid(why) => {
            counters[0].fetch_add(1, Ordering::Relaxed);
            if accepted_fen || accepted_board {
                rep.report(format!("accepts_invalid:{}", why), case(json!({"why": why})));
            }
        }
        FenClass::Valid { pos, legal, six_fields } => {
            counters[1].fetch_add(1, Ordering::Relaxed);
            if *legal && r_board.is_ok() && !accepted_board {
                rep.report("rejects_valid".to_string(), case(json!({})));
            }
            if let Ok(Ok(b)) = &r_board {
                let bad = decode_matches(b, pos);
                if !bad.is_empty() {
                    rep.report(format!("decode:{}", bad[0].split(' ').next().unwrap_or("")), case(json!({"bad": bad})));
                }
                if *legal {
                    let w = guarded(|| Fen::from(b).fen);
                    let want = pos.to_fen();
                    let _ = six_fields;
                    match w {
                        Ok(w) if w == want => {}
                        Ok(w) => rep.report("write_back".to_string(), case(json!({"written": w, "expected": want}))),
                        Err(m) => rep.report(format!("panic:write:{}", short(&m)), case(json!({"panic": m}))),
                    }
                }
            }
        }
        FenClass::Unspecified { lenient, .. } => {
            counters[2].fetch_add(1, Ordering::Relaxed);
            if let (Ok(Ok(b)), Some(l)) = (&r_board, lenient) {
                // only the unambiguous components
                let mut q = l.clone();
                q.half = b.halfmove_clock as u64;
                q.full = b.fullmove_clock as u64;
                let bad = decode_matches(b, &q);
                if !bad.is_empty() {
                    rep.report(format!("decode_lenient:{}", bad[0].split(' ').next().unwrap_or("")), case(json!({"bad": bad})));
                }
            }
        }
    }
    counters[3].fetch_add(1, Ordering::Relaxed);
}

pub fn run_c12(tier: Tier) -> i32 {
    let started = Instant::now();
    let rep = Reporter::new("C12");
    // part 1: every explored state (decode / write / 4-field) — through the board visitor
    let ctx = BoardCtx::new(Prop::C12, &rep);
    let mut fams: Vec<Value> = Vec::new();
    let roots = roots();
    let depth = if tier == Tier::Quick { 2 } else { 3 };
    let t0 = Instant::now();
    let (s, t, _) = reach(&roots, depth, &|p, _| visit(&ctx, p));
    fams.push(json!({"family": format!("REACH({})", depth), "states": s, "reference_transitions": t, "secs": t0.elapsed().as_secs_f64()}));
    let castle = CastleFam { blockers: if tier == Tier::Quick { 6 } else { 11 } };
    let ep = if tier == Tier::Quick { EpFam::quick() } else { EpFam::thorough() };
    let promo = if tier == Tier::Quick { PromoFam::quick() } else { PromoFam::thorough() };
    let mut list: Vec<Box<dyn Family>> = Vec::new();
    for sig in MAT3_SIGS {
        list.push(Box::new(Material::new(sig)));
    }
    if tier == Tier::Thorough {
        for sig in MAT4_SIGS {
            list.push(Box::new(Material::new(sig)));
        }
    }
    // the FEN codec is position-local: quick runs take a co-prime sub-lattice of each family
    let stride: u64 = if tier == Tier::Quick { 7 } else { 1 };
    for f in list.iter() {
        let t0 = Instant::now();
        let sf = Strided(f.as_ref(), stride);
        let n = for_family(&sf, &|p| visit(&ctx, p));
        fams.push(json!({"family": sf.name(), "legal_members": n, "secs": t0.elapsed().as_secs_f64()}));
    }
    let rights_ep = RightsEp;
    for f in [&castle as &dyn Family, &ep, &promo, &rights_ep] {
        let t0 = Instant::now();
        let sf = Strided(f, stride);
        let n = for_family(&sf, &|p| visit(&ctx, p));
        let n2 = for_family(&Flipped(&sf), &|p| visit(&ctx, p));
        fams.push(json!({"family": sf.name(), "legal_members": n, "flipped_members": n2, "secs": t0.elapsed().as_secs_f64()}));
    }
    // C12: boards with a history (plies made, legal moves probed, plies taken back) written through
    // both conversions
    {
        let t0 = Instant::now();
        let ks: Vec<usize> = if tier == Tier::Quick { (1..=12).chain([20, 41]).collect() } else { (1..=40).chain([80, 160, 400]).collect() };
        let n = std::sync::atomic::AtomicU64::new(0);
        let jobs: Vec<(usize, u64)> = (0..roots.len()).flat_map(|r| [(r, 7u64), (r, 1_000_003)]).collect();
        par_map(&jobs, |&(r, rule)| {
            n.fetch_add(crate::board_checks::c12_history_writes(&ctx, &roots[r], rule, &ks), std::sync::atomic::Ordering::Relaxed);
        });
        fams.push(json!({"family": "boards with a history (k plies made with a legal-move probe every other ply, 0..3 taken back) written through Fen::from(&board) and the owned Fen::from(board)", "roots": roots.len(), "line_lengths": ks, "boards_written": n.load(std::sync::atomic::Ordering::Relaxed), "secs": t0.elapsed().as_secs_f64()}));
    }

    // clock magnitudes on a few roots
    let halves: &[u64] = &[0, 1, 49, 50, 99, 100, 127, 128, 255, 4095, 4096, 65535, 4294967294, 4294967295];
    let fulls: &[u64] = &[1, 2, 3, 100, 2400, 65535, 2147483648, 4294967295];
    for f in FEN_BASES.iter().take(4) {
        if let Ok(p) = Pos::from_fen(f) {
            crate::board_checks::clock_sweep(&ctx, &p, halves, fulls);
        }
    }
    // the longest texts: placements in which pieces and single empty squares alternate (up to 71
    // characters), all four castling rights, and both clocks at every magnitude — and their flips
    for f in ["r1b1k1nr/p1p1p1p1/1p1p1p1p/n1q5/N1Q5/1P1P1P1P/P1P1P1P1/R1B1K1NR w KQkq - 0 1", "r1b1k2r/p1p1p1p1/1p1p1p1p/n1q1n3/N1Q1N3/1P1P1P1P/P1P1P1P1/R1B1K2R b KQkq - 0 1", "1k1r1b1r/p1p1p1p1/1p1p1p1p/n1q1n3/N1Q1N3/1P1P1P1P/P1P1P1P1/1K1R1B1R w - - 0 1"] {
        match Pos::from_fen(f) {
            Ok(p) => {
                crate::board_checks::clock_sweep(&ctx, &p, halves, fulls);
                crate::board_checks::clock_sweep(&ctx, &p.flip(), halves, fulls);
            }
            Err(e) => rep.machinery(format!("dense base FEN rejected by the reference: {}", e)),
        }
    }
    // part 2: single-fault mutants and short strings
    let t0 = Instant::now();
    let mut strings: Vec<String> = Vec::new();
    for b in FEN_BASES {
        strings.push(b.to_string());
        fen_mutants(b, &mut strings);
    }
    // rank-sum vectors: up to three ranks of a valid placement replaced by ranks that describe
    // 1 .. 36 squares (written without adjacent digits: "8p8p6" is 24), every choice of ranks and
    // sums — wrong sums of every magnitude in several ranks at once, in every order
    {
        let rank_of_sum = |mut sum: usize| -> String {
            let mut t = String::new();
            while sum > 9 {
                t.push_str("8p");
                sum -= 9;
            }
            if sum == 9 {
                t.push_str("8p");
            } else if sum > 0 {
                if t.is_empty() && sum == 8 {
                    t.push('8');
                } else {
                    t.push_str(&sum.to_string());
                }
            }
            t
        };
        let sums = [1usize, 6, 7, 9, 10, 15, 16, 17, 23, 24, 25, 31, 32, 33, 36];
        for base in ["k7/8/8/8/8/8/8/K7 w - - 0 1", "4k3/pppppppp/8/8/8/8/PPPPPPPP/4K3 b - - 3 9"] {
            let (placement, rest) = base.split_once(' ').unwrap();
            let ranks: Vec<&str> = placement.split('/').collect();
            let mut emit = |edits: &[(usize, usize)], strings: &mut Vec<String>| {
                let mut r: Vec<String> = ranks.iter().map(|x| x.to_string()).collect();
                for &(i, sidx) in edits {
                    r[i] = rank_of_sum(sums[sidx]);
                }
                strings.push(format!("{} {}", r.join("/"), rest));
            };
            for i in 0..8 {
                for a in 0..sums.len() {
                    emit(&[(i, a)], &mut strings);
                    for j in (i + 1)..8 {
                        for b in 0..sums.len() {
                            emit(&[(i, a), (j, b)], &mut strings);
                            if j == i + 1 && j + 1 < 8 {
                                // three adjacent ranks (chains)
                                for c in 0..sums.len() {
                                    emit(&[(i, a), (j, b), (j + 1, c)], &mut strings);
                                }
                            }
                        }
                    }
                }
            }
        }
    }
    let n_mutants = strings.len();
    // all strings of length <= 3 over the alphabet
    let a = FEN_ALPHABET;
    strings.push(String::new());
    for &c1 in a {
        strings.push(c1.to_string());
        for &c2 in a {
            strings.push([c1, c2].iter().collect());
            for &c3 in a {
                strings.push([c1, c2, c3].iter().collect());
            }
        }
    }
    let mut seen = HashSet::new();
    strings.retain(|s| seen.insert(s.clone()));
    let counters: [AtomicU64; 4] = Default::default();
    par_map(&strings, |s| judge_fen_string(&rep, s, &counters));
    fams.push(json!({
        "family": "single-fault mutants of 12 base FENs, sum-preserving double faults across two ranks, slash swaps, rank permutations, rank-sum vectors (up to three ranks describing 1..36 squares), + all strings of length <= 3 over a 42-character alphabet",
        "mutants_generated": n_mutants,
        "distinct_strings": strings.len(),
        "classified_invalid_must_reject": counters[0].load(Ordering::Relaxed),
        "classified_valid": counters[1].load(Ordering::Relaxed),
        "classified_unspecified_no_panic_only": counters[2].load(Ordering::Relaxed),
        "secs": t0.elapsed().as_secs_f64()
    }));

    let mut cov = Coverage::new();
    cov.states = ctx.states.load(Ordering::Relaxed) + strings.len() as u64;
    cov.transitions = ctx.transitions.load(Ordering::Relaxed) + 3 * strings.len() as u64;
    cov.traces_validated = cov.transitions;
    cov.set("families", json!(fams));
    cov.set("non_vacuity_counters", ctx.counters.to_json());
    cov.samples = vec![json!({"valid": FEN_BASES[2]}), json!({"mutant": strings[5]}), json!({"mutant": strings[strings.len() / 2]})];
    cov.assumptions = vec!["three-valued oracle: only unambiguous grammar breaks are must-reject; conventions that differ between tools are 'no panic' only (DESIGN §6.5)".into()];
    for k in ["ep_states", "rights_KQkq", "rights_-", "rights_Kq"] {
        if ctx.counters.get(k) == 0 {
            rep.machinery(format!("vacuous: counter {} is zero", k));
        }
    }
    finish(&rep, tier, cov, started)
}

pub fn replay_c12(case: &Value) -> bool {
    if case["kind"] == "fen_string" {
        let rep = Reporter::new("C12");
        let counters: [AtomicU64; 4] = Default::default();
        judge_fen_string(&rep, case["input"].as_str().unwrap_or(""), &counters);
        let started = Instant::now();
        let mut cov = Coverage::new();
        cov.states = 1;
        println!("replay: {} violating case(s) reproduced", rep.violation_count());
        std::process::exit(finish(&rep, Tier::Quick, cov_take(&mut cov), started));
    }
    if case["kind"] == "history_write" {
        let rep = Reporter::new("C12");
        let started = Instant::now();
        let ctx = BoardCtx::new(Prop::C12, &rep);
        if let Ok(root) = Pos::from_fen(case["fen"].as_str().unwrap_or("")) {
            let k = case["plies_made"].as_u64().unwrap_or(1) as usize;
            let n = crate::board_checks::c12_history_writes(&ctx, &root, case["rule"].as_u64().unwrap_or(7), &[k]);
            println!("{} plies made from {} with a legal-move probe every other ply, 0..3 taken back: {} boards written through both conversions", k, root.to_fen(), n);
        }
        let mut cov = Coverage::new();
        cov.states = 1;
        println!("replay: {} violating case(s) reproduced", rep.violation_count());
        std::process::exit(finish(&rep, Tier::Quick, cov_take(&mut cov), started));
    }
    false
}

fn cov_take(c: &mut Coverage) -> Coverage {
    std::mem::replace(c, Coverage::new())
}

// =======================================================================================
// C13

const PROMO_SUFFIXES: [&str; 6] = ["", "q", "r", "b", "n", "k"];

fn c13_positions(tier: Tier) -> Vec<Pos> {
    let roots = roots();
    let mut v: Vec<Pos> = Vec::new();
    let collect = std::sync::Mutex::new(Vec::new());
    reach(&roots, 1, &|p, _| collect.lock().unwrap().push(p.clone()));
    let mut all = collect.into_inner().unwrap();
    all.sort_by_key(|p| p.key());
    match tier {
        Tier::Quick => {
            // all roots + every 6th successor
            v.extend(roots.iter().cloned());
            v.extend(all.iter().step_by(6).cloned());
            v.truncate(310);
            // the same guarantees at large clocks (undo information is clock dependent)
            for (i, (h, f)) in [(127u64, 60u64), (128, 90), (130, 2000), (255, 300), (4000, 2100), (4090, 2400)].iter().enumerate() {
                let mut q = roots[(i * 7) % roots.len()].clone();
                q.half = *h;
                q.full = *f;
                v.push(q);
                let mut q = Pos::from_fen("4k3/4r3/8/8/8/8/4B3/4K3 w - - 0 1").unwrap();
                q.half = *h;
                q.full = *f;
                v.push(q);
            }
        }
        Tier::Thorough => {
            v.extend(all.iter().cloned());
            let collect = std::sync::Mutex::new(Vec::new());
            reach(&roots, 2, &|p, d| {
                if d == 2 {
                    collect.lock().unwrap().push(p.clone())
                }
            });
            let mut d2 = collect.into_inner().unwrap();
            d2.sort_by_key(|p| p.key());
            v.extend(d2.into_iter().step_by(3));
        }
    }
    v
}

fn err_kind(e: &MoveFromUciError) -> &'static str {
    match e {
        MoveFromUciError::MoveDoesNotExist(_) => "MoveDoesNotExist",
        MoveFromUciError::MoveIsNotValid(_) => "MoveIsNotValid",
    }
}

/// one (position, string) case through find_uci, make_uci and uci_to_pgn, each on a board whose
/// snapshot is compared before/after. Returns number of subject calls.
fn c13_case(rep: &Reporter, p: &Pos, fen: &str, b: &mut Bitboard, before: &Snap, s: &str, legal: &[(String, Mv)], pseudo_illegal: &HashSet<String>) -> u64 {
    let trimmed = s.trim();
    let has_blanks = trimmed.len() != s.len();
    rep.sample(|| json!({"fen": fen, "move_string": s, "apis": ["find_uci", "uci_to_pgn", "make_uci"]}));
    let denotes = legal.iter().find(|(u, _)| u == trimmed).map(|(_, m)| *m);
    // three-valued: blanks around an otherwise legal move are unspecified
    let must_ok = denotes.is_some() && !has_blanks;
    let must_err = denotes.is_none();
    let class = if must_ok {
        "legal"
    } else if pseudo_illegal.contains(trimmed) {
        "pseudo_legal_but_illegal"
    } else if must_err {
        "not_a_move"
    } else {
        "blank_padded_legal"
    };
    let case = |api: &str, extra: Value| -> Value { json!({"kind": "move_string", "fen": fen, "input": s, "api": api, "class": class, "detail": extra}) };
    let mut rebuild = |b: &mut Bitboard| {
        if let Ok(nb) = board_from_pos(p) {
            *b = nb;
        }
    };
    // find_uci
    match guarded(|| b.find_uci(s)) {
        Ok(r) => {
            match &r {
                Ok(mv) => {
                    if must_err {
                        rep.report(format!("find_uci:accepts:{}", class), case("find_uci", json!({"returned": mv.to_uci_string()})));
                    } else if mv.to_uci_string() != trimmed {
                        rep.report("find_uci:wrong_move".to_string(), case("find_uci", json!({"returned": mv.to_uci_string()})));
                    }
                }
                Err(e) => {
                    if must_ok {
                        rep.report("find_uci:rejects_legal".to_string(), case("find_uci", json!({"error": err_kind(e)})));
                    }
                }
            }
            let after = snap(b);
            if after != *before {
                rep.report(format!("find_uci:board_modified:{}:{}", if r.is_ok() { "ok" } else { "err" }, class), case("find_uci", json!({"diff": before.diff(&after), "after": after.to_pos().to_fen()})));
                rebuild(b);
            }
        }
        Err(m) => {
            rep.report(format!("panic:find_uci:{}", short(&m)), case("find_uci", json!({"panic": m})));
            rebuild(b);
        }
    }
    // uci_to_pgn
    match guarded(|| b.uci_to_pgn(s)) {
        Ok(r) => {
            if r.is_ok() && must_err {
                rep.report(format!("uci_to_pgn:accepts:{}", class), case("uci_to_pgn", json!({"returned": r.as_ref().ok()})));
            }
            if r.is_err() && must_ok {
                rep.report("uci_to_pgn:rejects_legal".to_string(), case("uci_to_pgn", json!({})));
            }
            let after = snap(b);
            if after != *before {
                rep.report(format!("uci_to_pgn:board_modified:{}:{}", if r.is_ok() { "ok" } else { "err" }, class), case("uci_to_pgn", json!({"diff": before.diff(&after), "after": after.to_pos().to_fen()})));
                rebuild(b);
            }
        }
        Err(m) => {
            rep.report(format!("panic:uci_to_pgn:{}", short(&m)), case("uci_to_pgn", json!({"panic": m})));
            rebuild(b);
        }
    }
    // make_uci
    match guarded(|| b.make_uci(s)) {
        Ok(r) => {
            let after = snap(b);
            match r {
                Ok(()) => {
                    if must_err {
                        rep.report(format!("make_uci:accepts:{}", class), case("make_uci", json!({"after": after.to_pos().to_fen()})));
                    } else if let Some(m) = denotes {
                        let want = p.make(&m);
                        if after.to_pos() != want {
                            rep.report("make_uci:wrong_successor".to_string(), case("make_uci", json!({"expected": want.to_fen(), "actual": after.to_pos().to_fen()})));
                        }
                    }
                    rebuild(b);
                }
                Err(e) => {
                    if must_ok {
                        rep.report("make_uci:rejects_legal".to_string(), case("make_uci", json!({"error": err_kind(&e)})));
                    }
                    if after != *before {
                        rep.report(format!("make_uci:board_modified_on_error:{}", class), case("make_uci", json!({"diff": before.diff(&after), "after": after.to_pos().to_fen()})));
                        rebuild(b);
                    }
                }
            }
        }
        Err(m) => {
            rep.report(format!("panic:make_uci:{}", short(&m)), case("make_uci", json!({"panic": m})));
            rebuild(b);
        }
    }
    3
}

fn c13_position(rep: &Reporter, p: &Pos, strings: &[String], calls: &AtomicU64, classes: &[AtomicU64; 3]) {
    let fen = p.to_fen();
    let mut b = match board_from_pos(p) {
        Ok(b) => b,
        Err(e) => {
            rep.machinery(e);
            return;
        }
    };
    let before = snap(&b);
    let legal: Vec<(String, Mv)> = p.legal().into_iter().map(|m| (m.uci(), m)).collect();
    let legal_set: HashSet<&String> = legal.iter().map(|(u, _)| u).collect();
    let pseudo_illegal: HashSet<String> = p.pseudo_legal().into_iter().map(|m| m.uci()).filter(|u| !legal_set.contains(u)).collect();
    let mut n = 0;
    for s in strings {
        n += c13_case(rep, p, &fen, &mut b, &before, s, &legal, &pseudo_illegal);
    }
    let in_strings: HashSet<&str> = strings.iter().map(|s| s.as_str()).collect();
    classes[0].fetch_add(legal.iter().filter(|(u, _)| in_strings.contains(u.as_str())).count() as u64, Ordering::Relaxed);
    classes[1].fetch_add(pseudo_illegal.iter().filter(|u| in_strings.contains(u.as_str())).count() as u64, Ordering::Relaxed);
    calls.fetch_add(n, Ordering::Relaxed);
}

/// whole move lists through `make_all_uci` in which tokens REPEAT (shuffles: the same text denotes
/// moves of different positions, with different clocks), lengths 5 .. 41: the final position must be
/// the reference's, field by field; with an impossible token appended the board must be untouched
pub fn long_list_check(rep: &Reporter, p: &Pos, n: &AtomicU64) {
    let fen = p.to_fen();
    // a four-ply cycle of reversible moves, if the position has one
    let mut cycle: Option<[Mv; 4]> = None;
    'outer: for a in p.legal() {
        if a.is_capture() || a.piece == PAWN || a.is_castle {
            continue;
        }
        let p1 = p.make(&a);
        for b in p1.legal() {
            if b.is_capture() || b.piece == PAWN || b.is_castle {
                continue;
            }
            let p2 = p1.make(&b);
            let back_a = format!("{}{}", sq_name(a.to), sq_name(a.from));
            if let Some(a2) = p2.find_legal_uci(&back_a) {
                let p3 = p2.make(&a2);
                let back_b = format!("{}{}", sq_name(b.to), sq_name(b.from));
                if let Some(b2) = p3.find_legal_uci(&back_b) {
                    if p3.make(&b2).board == p.board {
                        cycle = Some([a, b, a2, b2]);
                        break 'outer;
                    }
                }
            }
        }
    }
    let cyc = match cycle {
        Some(c) => c,
        None => return,
    };
    for len in [5usize, 6, 9, 16, 41] {
        // the list entry points make and take back moves (legality probe, roll-back); taking back is
        // specified for half-move clocks 0..4095 (C03, the width of the undo field), so a list stays
        // inside that domain
        if p.half as usize + len + 1 > 4095 {
            continue;
        }
        let mut q = p.clone();
        let mut list: Vec<String> = Vec::new();
        for i in 0..len {
            let want = cyc[i % 4].uci();
            match q.find_legal_uci(&want) {
                Some(m) => {
                    q = q.make(&m);
                    list.push(want);
                }
                None => break,
            }
        }
        if list.len() != len {
            continue;
        }
        for bad_tail in [false, true] {
            n.fetch_add(1, Ordering::Relaxed);
            let mut b = match board_from_pos(p) {
                Ok(b) => b,
                Err(_) => return,
            };
            let before = snap(&b);
            let mut l = list.clone();
            if bad_tail {
                l.push(list[0].clone() + "q");
            }
            let case = |extra: Value| json!({"kind": "long_move_list", "fen": fen, "list": l, "detail": extra});
            match guarded(|| b.make_all_uci(&l)) {
                Err(m) => rep.report(format!("panic:make_all_uci:{}", short(&m)), case(json!({"panic": m}))),
                Ok(r) => {
                    let after = snap(&b);
                    if bad_tail {
                        if r.is_ok() {
                            rep.report("make_all_uci:accepts_list_with_bad_move".to_string(), case(json!({})));
                        } else if after != before {
                            rep.report("make_all_uci:not_all_or_nothing".to_string(), case(json!({"diff": before.diff(&after)})));
                        }
                    } else if r.is_err() {
                        rep.report("make_all_uci:rejects_legal_list".to_string(), case(json!({"error": format!("{:?}", r.err())})));
                    } else if after.to_pos() != q {
                        rep.report("make_all_uci:wrong_final_position:repeated_tokens".to_string(), case(json!({"expected": q.to_fen(), "actual": after.to_pos().to_fen()})));
                    }
                }
            }
        }
    }
}

/// `Move::to_pgn_string(board)` with Move VALUES that were generated on other boards: the successors
/// of `p` (the opponent's moves), the colour-flipped twin, the same placement at another clock.
/// The outcome must be the one `uci_to_pgn` gives for the move's text — the SAN if that text is a
/// legal move here, an error otherwise — and the board must be left as it was.
fn c13_foreign_moves(rep: &Reporter, p: &Pos, calls: &AtomicU64) {
    let fen = p.to_fen();
    let mut b = match board_from_pos(p) {
        Ok(b) => b,
        Err(_) => return,
    };
    let before = snap(&b);
    let legal: Vec<(String, Mv)> = p.legal().into_iter().map(|m| (m.uci(), m)).collect();
    let mut sources: Vec<(&'static str, Pos)> = Vec::new();
    for (_, m) in &legal {
        sources.push(("successor", p.make(m)));
    }
    sources.push(("flipped_twin", p.flip()));
    let mut other_clock = p.clone();
    other_clock.half = (p.half + 37) % 90;
    other_clock.full = p.full + 11;
    sources.push(("same_placement_other_clocks", other_clock));
    let mut other_side = p.clone();
    other_side.stm = 1 - p.stm;
    other_side.ep = NO_EP;
    if other_side.is_legal_position() {
        sources.push(("same_placement_other_side_to_move", other_side));
    }
    let mut seen: HashSet<u64> = HashSet::new();
    for (origin, q) in &sources {
        let qb = match board_from_pos(q) {
            Ok(x) => x,
            Err(_) => continue,
        };
        for mv in qb.generate_pseudo_legal_moves() {
            if !seen.insert(mv.bits) {
                continue;
            }
            calls.fetch_add(1, Ordering::Relaxed);
            let text = mv.to_uci_string();
            let denotes = legal.iter().find(|(u, _)| *u == text).map(|(_, m)| *m);
            let case = |extra: Value| json!({"kind": "foreign_move", "fen": fen, "move_generated_on": q.to_fen(), "origin": origin, "move": text, "detail": extra});
            match guarded(|| mv.to_pgn_string(&mut b)) {
                Ok(r) => {
                    match (&r, &denotes) {
                        (Ok(s), Some(m)) => {
                            let want = san(p, m);
                            if *s != want {
                                rep.report("to_pgn_string:foreign_move:wrong_text".to_string(), case(json!({"expected": want, "actual": s})));
                            }
                        }
                        (Ok(s), None) => rep.report(format!("to_pgn_string:foreign_move:accepts_move_that_is_not_legal_here:{}", origin), case(json!({"returned": s}))),
                        // a Move value of another board whose TEXT happens to be legal here: the statement
                        // does not say whether it has to be accepted — only that nothing may be changed
                        (Err(_), Some(_)) => {}
                        (Err(_), None) => {}
                    }
                    let after = snap(&b);
                    if after != before {
                        rep.report(format!("to_pgn_string:foreign_move:board_modified:{}", if r.is_ok() { "ok" } else { "err" }), case(json!({"diff": before.diff(&after), "after": after.to_pos().to_fen()})));
                        if let Ok(nb) = board_from_pos(p) {
                            b = nb;
                        }
                    }
                }
                Err(m) => {
                    rep.report(format!("panic:to_pgn_string:foreign_move:{}", short(&m)), case(json!({"panic": m})));
                    if let Ok(nb) = board_from_pos(p) {
                        b = nb;
                    }
                }
            }
        }
    }
}

/// all move lists of length <= 3 over (up to 4 legal moves per step) ∪ {illegal pseudo-legal,
/// non-existent, malformed}, each call repeated twice on the same board
fn c13_lists(rep: &Reporter, p: &Pos, lists_run: &AtomicU64) {
    let fen = p.to_fen();
    let mut b = match board_from_pos(p) {
        Ok(b) => b,
        Err(_) => return,
    };
    let before = snap(&b);
    // enumerate token lists with the reference deciding the expected outcome
    fn choices(q: &Pos) -> Vec<(String, Option<Mv>)> {
        let legal = q.legal();
        let mut v: Vec<(String, Option<Mv>)> = Vec::new();
        let n = legal.len();
        for (i, m) in legal.iter().enumerate() {
            if i == 0 || i == n - 1 || i == n / 2 || m.is_castle || m.is_ep || (m.promo == KNIGHT) {
                v.push((m.uci(), Some(*m)));
            }
        }
        v.truncate(6);
        let lset: HashSet<String> = legal.iter().map(|m| m.uci()).collect();
        if let Some(bad) = q.pseudo_legal().into_iter().map(|m| m.uci()).find(|u| !lset.contains(u)) {
            v.push((bad, None));
        }
        v.push(("a1a1".to_string(), None));
        v.push(("e2".to_string(), None));
        v
    }
    let mut stack: Vec<(Vec<String>, Option<Pos>)> = vec![(Vec::new(), Some(p.clone()))];
    while let Some((list, cur)) = stack.pop() {
        if !list.is_empty() {
            lists_run.fetch_add(1, Ordering::Relaxed);
            for round in 0..2 {
                let r = guarded(|| b.make_all_uci(&list));
                let after = snap(&b);
                let case = |extra: Value| json!({"kind": "move_list", "fen": fen, "list": list, "round": round, "detail": extra});
                match r {
                    Ok(Ok(())) => match &cur {
                        Some(want) => {
                            if after.to_pos() != *want {
                                rep.report("make_all_uci:wrong_final_position".to_string(), case(json!({"expected": want.to_fen(), "actual": after.to_pos().to_fen()})));
                            }
                        }
                        None => rep.report("make_all_uci:accepts_list_with_bad_move".to_string(), case(json!({"after": after.to_pos().to_fen()}))),
                    },
                    Ok(Err(_)) => {
                        if cur.is_some() {
                            rep.report("make_all_uci:rejects_legal_list".to_string(), case(json!({})));
                        }
                        if after != before {
                            let bad_index = list.len();
                            let _ = bad_index;
                            rep.report("make_all_uci:not_all_or_nothing".to_string(), case(json!({"diff": before.diff(&after), "after": after.to_pos().to_fen()})));
                        }
                    }
                    Err(m) => rep.report(format!("panic:make_all_uci:{}", short(&m)), case(json!({"panic": m}))),
                }
                if snap(&b) != before {
                    if let Ok(nb) = board_from_pos(p) {
                        b = nb;
                    }
                }
            }
        }
        if list.len() >= 3 {
            continue;
        }
        match &cur {
            Some(q) => {
                for (tok, m) in choices(q) {
                    let mut l = list.clone();
                    l.push(tok);
                    stack.push((l, m.map(|m| q.make(&m))));
                }
            }
            None => {
                // after a bad token anything may follow: one legal-looking and one bad continuation
                for tok in ["e2e4", "zz"] {
                    let mut l = list.clone();
                    l.push(tok.to_string());
                    stack.push((l, None));
                }
            }
        }
    }
}

/// One BOARD OBJECT over a whole session: at every ply of a line (a) every pseudo-legal but illegal
/// move is requested through `make_uci` and must be refused with the position unchanged, (b) for
/// every legal move m the list [m, <its first legal reply>, nonsense] goes through `make_all_uci`
/// and must be rolled back, (c) every legal move must be found by `find_uci` and rendered by
/// `uci_to_pgn`, (d) the chosen move is played through `make_uci` and the position compared with
/// the reference successor. What a refused request leaves behind shows a ply or two later, when
/// the other side moves onto the squares that were tried. Returns the number of API calls.
pub fn c13_board_session(rep: &Reporter, root: &Pos, rule: u64, plies: usize) -> u64 {
    let fen = root.to_fen();
    let mut calls = 0u64;
    let r = guarded(|| -> Option<(String, Value)> {
        let mut b = board_from_pos(root).ok()?;
        let mut p = root.clone();
        let mut played: Vec<String> = Vec::new();
        for ply in 0..plies {
            if p.half + 4 > 4095 {
                break;
            }
            let legal = p.legal();
            if legal.is_empty() {
                break;
            }
            let before = snap(&b);
            // (a) refused single requests
            for m in p.pseudo_legal() {
                if legal.iter().any(|l| l.uci() == m.uci()) {
                    continue;
                }
                calls += 1;
                let u = m.uci();
                if b.make_uci(&u).is_ok() {
                    return Some(("session:accepts_illegal_move".into(), json!({"at_ply": ply, "played": played, "request": u})));
                }
                if snap(&b) != before {
                    return Some(("session:refused_request_changes_the_position".into(), json!({"at_ply": ply, "played": played, "request": u, "diff": before.diff(&snap(&b))})));
                }
            }
            // (b) rolled back lists
            for m in &legal {
                let q = p.make(m);
                let mut l = vec![m.uci()];
                if let Some(reply) = q.legal().first() {
                    l.push(reply.uci());
                }
                l.push("a1a1".to_string());
                calls += 1;
                if b.make_all_uci(&l).is_ok() {
                    return Some(("session:accepts_list_with_impossible_move".into(), json!({"at_ply": ply, "played": played, "list": l})));
                }
                if snap(&b) != before {
                    return Some(("session:rolled_back_list_changes_the_position".into(), json!({"at_ply": ply, "played": played, "list": l, "diff": before.diff(&snap(&b))})));
                }
            }
            // (c) every legal move is still known
            for m in &legal {
                let u = m.uci();
                calls += 2;
                if b.find_uci(&u).is_err() {
                    return Some(("session:find_uci_refuses_legal_move".into(), json!({"at_ply": ply, "played": played, "request": u, "position": p.to_fen()})));
                }
                if b.uci_to_pgn(&u).is_err() {
                    return Some(("session:uci_to_pgn_refuses_legal_move".into(), json!({"at_ply": ply, "played": played, "request": u, "position": p.to_fen()})));
                }
            }
            if snap(&b) != before {
                return Some(("session:lookup_changes_the_position".into(), json!({"at_ply": ply, "played": played, "diff": before.diff(&snap(&b))})));
            }
            // (d) one move is played
            let cands: Vec<&Mv> = legal.iter().filter(|m| p.make(m).has_legal_move()).collect();
            if cands.is_empty() {
                break;
            }
            let rm = *cands[((ply as u64 + 1).wrapping_mul(rule).wrapping_add(rule >> 3) % cands.len() as u64) as usize];
            let u = rm.uci();
            calls += 1;
            if b.make_uci(&u).is_err() {
                return Some(("session:make_uci_refuses_legal_move".into(), json!({"at_ply": ply, "played": played, "request": u, "position": p.to_fen()})));
            }
            p = p.make(&rm);
            played.push(u);
            let got = snap(&b).to_pos();
            if got != p {
                return Some(("session:wrong_successor".into(), json!({"at_ply": ply, "played": played, "expected": p.to_fen(), "actual": got.to_fen()})));
            }
        }
        None
    });
    match r {
        Ok(Some((sig, detail))) => rep.report(sig, json!({"kind": "board_session", "fen": fen, "rule": rule, "plies": plies, "detail": detail})),
        Ok(None) => {}
        Err(m) => rep.report(format!("panic:board_session:{}", short(&m)), json!({"kind": "board_session", "fen": fen, "rule": rule, "plies": plies, "panic": m})),
    }
    calls
}

pub fn run_c13(tier: Tier) -> i32 {
    let started = Instant::now();
    let rep = Reporter::new("C13");
    let positions = c13_positions(tier);
    // all 64 x 64 x 6 strings
    let mut strings: Vec<String> = Vec::with_capacity(24576);
    for from in 0..64u8 {
        for to in 0..64u8 {
            for suf in PROMO_SUFFIXES {
                strings.push(format!("{}{}{}", sq_name(from), sq_name(to), suf));
            }
        }
    }
    // malformed: lengths 0..=4 over a 12-symbol alphabet (+ a few longer ones)
    let alpha = ['a', 'h', '1', '8', 'e', '2', '4', 'q', 'k', ' ', 'Q', 'x'];
    let mut malformed: Vec<String> = vec![String::new()];
    let mut layer: Vec<String> = vec![String::new()];
    for _ in 0..4 {
        let mut next = Vec::new();
        for s in &layer {
            for c in alpha {
                let mut t = s.clone();
                t.push(c);
                next.push(t);
            }
        }
        malformed.extend(next.iter().cloned());
        layer = next;
    }
    for extra in ["E2E4", " e2e4", "e2e4 ", " e2e4 ", "e2e4qq", "e7e8Q", "e2-e4", "e2e4\n", "\te2e4", "0000", "e2e", "é2e4", "e2e4é", "a7a8=q", "O-O", "e1g1 e8g8"] {
        malformed.push(extra.to_string());
    }
    // the board continued beyond its edges: square groups over files `, a..h, i, A, H, z, 0 and ranks
    // 0, 1..8, 9, ':', '/', 'a' — every pair of groups in which at least one is off the board (the
    // on-board pairs are the 64 x 64 family above), with and without a promotion letter
    let offboard: Vec<String> = {
        let files = ['`', 'a', 'b', 'c', 'd', 'e', 'f', 'g', 'h', 'i', 'A', 'H', 'z', '0'];
        let ranks = ['0', '1', '2', '3', '4', '5', '6', '7', '8', '9', ':', '/', 'a'];
        let on_board = |f: char, r: char| ('a'..='h').contains(&f) && ('1'..='8').contains(&r);
        let mut v = Vec::new();
        for f1 in files {
            for r1 in ranks {
                for f2 in files {
                    for r2 in ranks {
                        if on_board(f1, r1) && on_board(f2, r2) {
                            continue;
                        }
                        for suf in ["", "q"] {
                            v.push(format!("{}{}{}{}{}", f1, r1, f2, r2, suf));
                        }
                    }
                }
            }
        }
        v
    };
    let calls = AtomicU64::new(0);
    let classes: [AtomicU64; 3] = Default::default();
    let lists_run = AtomicU64::new(0);
    let foreign_calls = AtomicU64::new(0);
    let session_calls = AtomicU64::new(0);
    let t0 = Instant::now();
    let n_mal_positions = if tier == Tier::Quick { 12 } else { 60 };
    let idx: Vec<usize> = (0..positions.len()).collect();
    par_map(&idx, |&i| {
        let p = &positions[i];
        c13_position(&rep, p, &strings, &calls, &classes);
        if i % 3 == 0 || tier == Tier::Thorough {
            c13_position(&rep, p, &offboard, &calls, &classes);
        }
        if i < n_mal_positions {
            c13_position(&rep, p, &malformed, &calls, &classes);
        }
        if i % 4 == 0 || tier == Tier::Thorough {
            c13_lists(&rep, p, &lists_run);
        }
        if i % 2 == 0 || tier == Tier::Thorough {
            c13_foreign_moves(&rep, p, &foreign_calls);
        }
        long_list_check(&rep, p, &lists_run);
        for rule in [7u64, 1_000_003] {
            session_calls.fetch_add(c13_board_session(&rep, p, rule, if tier == Tier::Quick { 6 } else { 16 }), Ordering::Relaxed);
        }
    });
    // the position command of the engine is a caller of make_all_uci: a rejected move list after an
    // accepted position must leave the engine on the accepted one (all-or-nothing, observed through
    // the bestmove of a following go)
    let t_rej = Instant::now();
    let n_rej = crate::engine_sched::position_command_sessions(&rep, tier, "C13", &AtomicU64::new(0));
    let rej_secs = t_rej.elapsed().as_secs_f64();
    let mut cov = Coverage::new();
    cov.set("engine_position_commands_rejected_after_an_accepted_one", json!({"sessions": n_rej, "secs": rej_secs}));
    cov.states = positions.len() as u64;
    cov.transitions = calls.load(Ordering::Relaxed) + 2 * lists_run.load(Ordering::Relaxed);
    cov.traces_validated = cov.transitions;
    cov.set("positions", json!(positions.len()));
    cov.set("move_strings_per_position", json!(strings.len()));
    cov.set("malformed_strings", json!(malformed.len()));
    cov.set("off_board_square_strings_per_position", json!(offboard.len()));
    cov.set("to_pgn_string_calls_with_moves_generated_on_other_boards", json!(foreign_calls.load(Ordering::Relaxed)));
    cov.set("board_sessions", json!({"what": "one board object over a line: refused requests, rolled back lists, lookups of every legal move, one move played — at every ply", "sessions": positions.len() * 2, "api_calls": session_calls.load(Ordering::Relaxed)}));
    cov.set("positions_with_malformed_sweep", json!(n_mal_positions.min(positions.len())));
    cov.set("legal_strings_judged", json!(classes[0].load(Ordering::Relaxed)));
    cov.set("pseudo_legal_but_illegal_strings_judged", json!(classes[1].load(Ordering::Relaxed)));
    cov.set("move_lists_run_twice_each", json!(lists_run.load(Ordering::Relaxed)));
    cov.set("secs_sweep", json!(t0.elapsed().as_secs_f64()));
    cov.samples = vec![json!({"fen": positions[0].to_fen(), "input": "e2e4", "apis": ["find_uci", "uci_to_pgn", "make_uci"]}), json!({"fen": positions[1].to_fen(), "list": ["e1g1", "a1a1"], "api": "make_all_uci"})];
    cov.assumptions = vec!["blank-padded legal moves are unspecified (find_uci trims by design)".into()];
    if classes[1].load(Ordering::Relaxed) == 0 {
        rep.machinery("vacuous: no pseudo-legal-but-illegal string in any position");
    }
    finish(&rep, tier, cov, started)
}

pub fn replay_c13(case: &Value) -> i32 {
    #[cfg(inkayaku_verif)]
    if case["kind"] == "rejected_then_accepted_position" {
        return crate::engine_sched::replay_position_triple(case);
    }
    let started = Instant::now();
    let rep = Reporter::new("C13");
    let fen = case["fen"].as_str().unwrap_or("");
    let p = match Pos::from_fen(fen) {
        Ok(p) => p,
        Err(e) => {
            eprintln!("bad replay fen: {}", e);
            return 2;
        }
    };
    match case["kind"].as_str().unwrap_or("") {
        "move_string" => {
            let calls = AtomicU64::new(0);
            let classes: [AtomicU64; 3] = Default::default();
            c13_position(&rep, &p, &[case["input"].as_str().unwrap_or("").to_string()], &calls, &classes);
        }
        "move_list" => {
            let n = AtomicU64::new(0);
            c13_lists(&rep, &p, &n);
        }
        "long_move_list" => {
            let n = AtomicU64::new(0);
            long_list_check(&rep, &p, &n);
        }
        "board_session" => {
            let n = c13_board_session(&rep, &p, case["rule"].as_u64().unwrap_or(7), case["plies"].as_u64().unwrap_or(6) as usize);
            println!("one board over a line of up to {} plies from {}: {} API calls", case["plies"], fen, n);
        }
        "foreign_move" => {
            // the whole (small) family of this position is re-run; the case names the first failure
            let n = AtomicU64::new(0);
            c13_foreign_moves(&rep, &p, &n);
        }
        _ => return 2,
    }
    println!("replay: {} violating case(s) reproduced", rep.violation_count());
    let mut cov = Coverage::new();
    cov.states = 1;
    finish(&rep, Tier::Quick, cov, started)
}

// =======================================================================================
// C14

fn c14_grammar_position(rep: &Reporter, p: &Pos, full: bool, n_strings: &AtomicU64, verdicts: &[AtomicU64; 3], nonstandard: &AtomicU64, only: Option<&str>) {
    let fen = p.to_fen();
    let mut b = match board_from_pos(p) {
        Ok(b) => b,
        Err(e) => {
            rep.machinery(e);
            return;
        }
    };
    let before = snap(&b);
    let table: Vec<(Mv, String)> = p.legal().into_iter().map(|m| (m, san(p, &m))).collect();
    let pieces: [Option<u8>; 6] = [None, Some(KING), Some(QUEEN), Some(ROOK), Some(BISHOP), Some(KNIGHT)];
    let suffixes: &[Option<char>] = if full { &[None, Some('+'), Some('#')] } else { &[None] };
    let mut n = 0u64;
    let mut judge = |f: SanFields, b: &mut Bitboard| {
        let text = f.text();
        if let Some(o) = only {
            if text != o {
                return; // replay mode: exactly the recorded string
            }
        }
        n += 1;
        // The statement speaks about standard SAN strings. Pawn moves written with a source rank,
        // with a source file but no capture mark, or with a capture mark but no source file are
        // not SAN at all: for those only "no panic, board untouched" is demanded.
        let standard_form = match &f {
            SanFields::Castle { .. } => true,
            SanFields::Normal { piece: Some(_), promo, .. } => promo.is_none(),
            SanFields::Normal { piece: None, from_file, from_row, takes, .. } => from_row.is_none() && (from_file.is_some() == *takes),
        };
        let verdict = if standard_form { resolve_with(&table, &f) } else { SanVerdict::MustErr };
        rep.sample(|| json!({"fen": fen, "san_string": text, "reference_verdict": format!("{:?}", verdict).chars().take(60).collect::<String>(), "standard_form": standard_form}));
        let r = guarded(|| b.pgn_to_bb(&text));
        let case = |extra: Value| json!({"kind": "san_string", "fen": fen, "input": text, "verdict": format!("{:?}", verdict).chars().take(40).collect::<String>(), "detail": extra});
        match r {
            Ok(r) => {
                let got = r.ok().map(|m| m.to_uci_string());
                match &verdict {
                    SanVerdict::Exactly(m) => {
                        verdicts[0].fetch_add(1, Ordering::Relaxed);
                        if got.as_deref() != Some(m.uci().as_str()) {
                            rep.report(format!("parser:standard_san_{}", if got.is_none() { "rejected" } else { "misread" }), case(json!({"expected": m.uci(), "actual": got})));
                        }
                    }
                    SanVerdict::MustErr if !standard_form => {
                        nonstandard.fetch_add(1, Ordering::Relaxed);
                    }
                    SanVerdict::MustErr => {
                        verdicts[1].fetch_add(1, Ordering::Relaxed);
                        if let Some(g) = got {
                            rep.report("parser:accepts_text_denoting_no_unique_move".to_string(), case(json!({"actual": g})));
                        }
                    }
                    SanVerdict::Only(m) => {
                        verdicts[2].fetch_add(1, Ordering::Relaxed);
                        if let Some(g) = got {
                            if g != m.uci() {
                                rep.report("parser:returns_move_contradicting_text".to_string(), case(json!({"only_consistent_move": m.uci(), "actual": g})));
                            }
                        }
                    }
                }
            }
            Err(m) => rep.report(format!("panic:pgn_to_bb:{}", short(&m)), case(json!({"panic": m}))),
        }
        if snap(b) != before {
            rep.report("pgn_to_bb:board_modified".to_string(), case(json!({})));
            if let Ok(nb) = board_from_pos(p) {
                *b = nb;
            }
        }
    };
    for piece in pieces {
        for ff in std::iter::once(None).chain((0..8).map(Some)) {
            for fr in std::iter::once(None).chain((0..8).map(Some)) {
                for takes in [false, true] {
                    for target in 0..64u8 {
                        let back = row_of(target) == 0 || row_of(target) == 7;
                        let promos: &[Option<u8>] = if piece.is_none() && (back || full) { &[None, Some(QUEEN), Some(ROOK), Some(BISHOP), Some(KNIGHT)] } else { &[None] };
                        for &promo in promos {
                            for &suffix in suffixes {
                                judge(SanFields::Normal { piece, from_file: ff, from_row: fr, takes, target, promo, suffix }, &mut b);
                            }
                        }
                    }
                }
            }
        }
    }
    for long in [false, true] {
        for suffix in [None, Some('+'), Some('#')] {
            judge(SanFields::Castle { long, suffix }, &mut b);
        }
    }
    n_strings.fetch_add(n, Ordering::Relaxed);
}

pub fn run_c14(tier: Tier) -> i32 {
    let started = Instant::now();
    let rep = Reporter::new("C14");
    let ctx = BoardCtx::new(Prop::C14, &rep);
    let mut fams: Vec<Value> = Vec::new();
    let roots = roots();
    let depth = if tier == Tier::Quick { 2 } else { 3 };
    let t0 = Instant::now();
    let (s, t, _) = reach(&roots, depth, &|p, _| visit(&ctx, p));
    fams.push(json!({"family": format!("REACH({})", depth), "states": s, "reference_transitions": t, "secs": t0.elapsed().as_secs_f64()}));
    // like-piece signatures built for disambiguation
    let mut list: Vec<Box<dyn Family>> = Vec::new();
    for sig in MAT3_SIGS {
        list.push(Box::new(Material::new(sig)));
    }
    for f in list.iter() {
        let t0 = Instant::now();
        // quick runs: every other index of the 3-piece families (all of them in thorough runs)
        let sf = Strided(f.as_ref(), if tier == Tier::Quick { 2 } else { 1 });
        let n = for_family(&sf, &|p| visit(&ctx, p));
        fams.push(json!({"family": sf.name(), "legal_members": n, "secs": t0.elapsed().as_secs_f64()}));
    }
    let like: &[&str] = if tier == Tier::Quick { &["KNNk", "KRRk", "KQQk", "KBBk"] } else { &["KNNk", "KRRk", "KQQk", "KBBk", "Kknn", "Kkrr", "KPPk", "KQkq", "KRkn"] };
    // two like pieces: all placements in thorough runs, a co-prime sub-lattice in quick runs
    let like_stride: u64 = if tier == Tier::Quick { 97 } else { 5 };
    for sig in like {
        let t0 = Instant::now();
        let fam = Material::new(sig);
        let sf = Strided(&fam, like_stride);
        let n = for_family(&sf, &|p| visit(&ctx, p));
        fams.push(json!({"family": sf.name(), "legal_members": n, "secs": t0.elapsed().as_secs_f64()}));
    }
    let castle = CastleFam { blockers: 6 };
    let ep = EpFam::quick();
    let promo = PromoFam::quick();
    if tier == Tier::Thorough {
        for f in [&castle as &dyn Family, &ep, &promo] {
            let t0 = Instant::now();
            let n = for_family(f, &|p| visit(&ctx, p));
            let n2 = for_family(&Flipped(f), &|p| visit(&ctx, p));
            fams.push(json!({"family": f.name(), "legal_members": n, "flipped_members": n2, "secs": t0.elapsed().as_secs_f64()}));
        }
    }
    // checks against a king that cannot move while other pieces can (RINGCHK), and crowded kings
    {
        let t0 = Instant::now();
        let fam = RingChk;
        let sf = Strided(&fam, if tier == Tier::Quick { 1_201 } else { 37 });
        let n = for_family(&sf, &|p| visit(&ctx, p));
        let n2 = for_family(&Flipped(&sf), &|p| visit(&ctx, p));
        fams.push(json!({"family": sf.name(), "legal_members": n, "flipped_members": n2, "secs": t0.elapsed().as_secs_f64()}));
    }
    // castling rights x pending e.p. x rooks that can reach the same squares
    {
        let t0 = Instant::now();
        let fam = RightsEp;
        let sf = Strided(&fam, if tier == Tier::Quick { 5 } else { 1 });
        let n = for_family(&sf, &|p| visit(&ctx, p));
        let n2 = for_family(&Flipped(&sf), &|p| visit(&ctx, p));
        fams.push(json!({"family": sf.name(), "legal_members": n, "flipped_members": n2, "secs": t0.elapsed().as_secs_f64()}));
    }
    // three like pieces aiming at one square with an enemy slider around (pins, blocks, checks)
    for kind in [KNIGHT, ROOK, QUEEN, BISHOP] {
        let t0 = Instant::now();
        let fam = Like3 { kind };
        // co-prime strides giving a few 10^5 members per kind in quick runs
        let stride: u64 = match (tier, kind) {
            (Tier::Quick, KNIGHT) => 15_013,
            (Tier::Quick, BISHOP) => 75_011,
            (Tier::Quick, ROOK) => 225_023,
            (Tier::Quick, _) => 1_350_007,
            (Tier::Thorough, KNIGHT) => 499,
            (Tier::Thorough, BISHOP) => 2_503,
            (Tier::Thorough, ROOK) => 3_001,
            (Tier::Thorough, _) => 20_011,
        };
        let sf = Strided(&fam, stride);
        let n = for_family(&sf, &|p| visit(&ctx, p));
        let n2 = for_family(&Flipped(&sf), &|p| visit(&ctx, p));
        fams.push(json!({"family": sf.name(), "legal_members": n, "flipped_members": n2, "secs": t0.elapsed().as_secs_f64()}));
    }
    // double pushes that give check and can be answered en passant, inside mating nets
    {
        let t0 = Instant::now();
        let fam = PushChk;
        let stride: u64 = if tier == Tier::Quick { 601 } else { 7 };
        let sf = Strided(&fam, stride);
        let n = for_family(&sf, &|p| visit(&ctx, p));
        let n2 = for_family(&Flipped(&sf), &|p| visit(&ctx, p));
        fams.push(json!({"family": sf.name(), "legal_members": n, "flipped_members": n2, "secs": t0.elapsed().as_secs_f64()}));
    }
    // three / four queens: file+rank disambiguation, on a sub-lattice of KQQQk
    {
        let t0 = Instant::now();
        let fam = Material::new("KQQQk");
        let stride: u64 = if tier == Tier::Quick { 2003 } else { 53 };
        let count = AtomicU64::new(0);
        par_for(fam.len() / stride, 256, |i| {
            if let Some(p) = fam.decode(i * stride) {
                count.fetch_add(1, Ordering::Relaxed);
                visit(&ctx, &p);
            }
        });
        fams.push(json!({"family": "MAT:KQQQk sub-lattice", "stride": stride, "legal_members": count.load(Ordering::Relaxed), "secs": t0.elapsed().as_secs_f64()}));
    }
    // three pawns capturing/promoting onto one square
    for f in ["1r2k3/P1P5/8/8/8/8/8/4K3 w - - 0 1", "3r2k1/2P1P3/8/8/8/8/8/4K3 w - - 0 1", "4k3/8/8/8/8/8/2p1p3/3RK3 b - - 0 1", "4k3/8/8/2PpP3/8/8/8/4K3 w - d6 0 1"] {
        if let Ok(p) = Pos::from_fen(f) {
            visit(&ctx, &p);
        }
    }
    // parser: the SAN grammar restricted to the board
    let t0 = Instant::now();
    let gp: Vec<Pos> = {
        let collect = std::sync::Mutex::new(Vec::new());
        reach(&roots, 1, &|p, _| collect.lock().unwrap().push(p.clone()));
        let mut all = collect.into_inner().unwrap();
        all.sort_by_key(|p| p.key());
        let (step, cap) = if tier == Tier::Quick { (40, 40) } else { (8, 200) };
        let mut v: Vec<Pos> = ROOT_FENS.iter().take(if tier == Tier::Quick { 12 } else { 30 }).map(|f| Pos::from_fen(f).unwrap()).collect();
        v.extend(all.into_iter().step_by(step));
        v.push(Pos::from_fen("6k1/8/8/8/Q6Q/8/8/Q3K3 w - - 0 1").unwrap());
        v.push(Pos::from_fen("4k3/8/8/8/8/5N2/8/1N2K3 w - - 0 1").unwrap());
        v.truncate(cap);
        v
    };
    let n_strings = AtomicU64::new(0);
    let verdicts: [AtomicU64; 3] = Default::default();
    let nonstandard = AtomicU64::new(0);
    par_map(&gp, |p| c14_grammar_position(&rep, p, tier == Tier::Thorough, &n_strings, &verdicts, &nonstandard, None));
    fams.push(json!({
        "family": "SAN grammar restricted to the board ([KQRBN]? file? rank? x? target (=[QRBN])? [+#]? and O-O/O-O-O)",
        "positions": gp.len(),
        "strings": n_strings.load(Ordering::Relaxed),
        "verdict_exactly": verdicts[0].load(Ordering::Relaxed),
        "verdict_must_err": verdicts[1].load(Ordering::Relaxed),
        "verdict_unspecified_only": verdicts[2].load(Ordering::Relaxed),
        "not_standard_form_no_panic_only": nonstandard.load(Ordering::Relaxed),
        "full_suffix_and_promo_grammar": tier == Tier::Thorough,
        "secs": t0.elapsed().as_secs_f64()
    }));
    let mut cov = Coverage::new();
    cov.states = ctx.states.load(Ordering::Relaxed) + gp.len() as u64;
    cov.transitions = ctx.transitions.load(Ordering::Relaxed) + n_strings.load(Ordering::Relaxed);
    cov.traces_validated = cov.transitions;
    cov.set("families", json!(fams));
    cov.set("non_vacuity_counters", ctx.counters.to_json());
    cov.samples = vec![json!({"fen": "4k3/8/8/8/8/5N2/8/1N2K3 w - - 0 1", "move": "b1d2", "standard_san": "Nbd2"}), json!({"fen": gp[0].to_fen(), "grammar_string": "Nbxd2+"})];
    for k in ["disambiguation_by_file", "disambiguation_by_rank", "disambiguation_by_both", "mating_moves", "stalemating_moves", "castle_WK", "castle_BQ", "ep_captures", "capture_promotions", "checks_answered_only_by_en_passant"] {
        if ctx.counters.get(k) == 0 {
            rep.machinery(format!("vacuous: counter {} is zero", k));
        }
    }
    finish(&rep, tier, cov, started)
}

pub fn replay_c14(case: &Value) -> i32 {
    let started = Instant::now();
    let rep = Reporter::new("C14");
    let fen = case["fen"].as_str().unwrap_or("");
    let p = match Pos::from_fen(fen) {
        Ok(p) => p,
        Err(e) => {
            eprintln!("bad replay fen: {}", e);
            return 2;
        }
    };
    match case["kind"].as_str().unwrap_or("") {
        "state" => {
            let ctx = BoardCtx::new(Prop::C14, &rep);
            visit(&ctx, &p);
        }
        "san_string" => {
            let n = AtomicU64::new(0);
            let v: [AtomicU64; 3] = Default::default();
            let ns = AtomicU64::new(0);
            c14_grammar_position(&rep, &p, true, &n, &v, &ns, case["input"].as_str());
        }
        _ => return 2,
    }
    println!("replay: {} violating case(s) reproduced", rep.violation_count());
    let mut cov = Coverage::new();
    cov.states = 1;
    finish(&rep, Tier::Quick, cov, started)
}
