//! Reference minimax: plain negamax without pruning, move ordering or tables, horizon
//! resolved by exhaustive legal capture/promotion search with stand-pat.
//! The leaf evaluation is a callback so the engine's own static evaluation is used.

use crate::*;
use std::collections::HashMap;

/// eval(p, has_legal_moves) -> value from the point of view of the side to move in `p`
pub type EvalFn<'a> = &'a dyn Fn(&Pos, bool) -> i32;

pub struct RefSearch<'a> {
    pub eval: EvalFn<'a>,
    /// positions before the root (game history, oldest first), root excluded; used for the
    /// repetition rule; empty = no history
    pub history: Vec<Pos>,
    /// None = ignore repetition (C08 positions have no history and depth <= 3 cannot repeat)
    pub repetition: Option<RepRule>,
    pub nodes: u64,
}

#[derive(Clone, Copy)]
pub struct RepRule {
    pub draw: i32,
    pub contempt: i32,
}

impl<'a> RefSearch<'a> {
    pub fn new(eval: EvalFn<'a>) -> Self {
        RefSearch { eval, history: Vec::new(), repetition: None, nodes: 0 }
    }

    /// exhaustive capture/promotion resolution with stand-pat — plain minimax (used by the
    /// self-test to validate `quiesce`)
    pub fn quiesce_plain(&mut self, p: &Pos) -> i32 {
        self.nodes += 1;
        let mut best = (self.eval)(p, true);
        for m in p.legal() {
            if m.is_capture() || m.promo != 0 {
                let v = -self.quiesce_plain(&p.make(&m));
                if v > best {
                    best = v;
                }
            }
        }
        best
    }

    /// same value as `quiesce_plain`, computed with fail-soft alpha-beta on a full window (an
    /// exact method; needed because unpruned capture trees of middlegame positions explode)
    pub fn quiesce(&mut self, p: &Pos) -> i32 {
        self.quiesce_ab(p, -i32::MAX, i32::MAX)
    }

    fn quiesce_ab(&mut self, p: &Pos, mut alpha: i32, beta: i32) -> i32 {
        self.nodes += 1;
        let mut best = (self.eval)(p, true);
        if best >= beta {
            return best;
        }
        if best > alpha {
            alpha = best;
        }
        let mut moves: Vec<Mv> = p.legal().into_iter().filter(|m| m.is_capture() || m.promo != 0).collect();
        // most valuable victim first: pure ordering, no effect on the value
        moves.sort_by_key(|m| (-(m.captured as i32) * 16 + m.piece as i32, m.from, m.to, m.promo));
        for m in moves {
            let v = -self.quiesce_ab(&p.make(&m), -beta, -alpha);
            if v > best {
                best = v;
                if v > alpha {
                    alpha = v;
                }
                if alpha >= beta {
                    break;
                }
            }
        }
        best
    }

    /// occurrences of `p` among `line` (history + current line, `p` itself being the last
    /// element) with no capture or pawn move in between
    pub fn occurrences(line: &[Pos]) -> usize {
        let cur = line.last().unwrap();
        let key = cur.key();
        let mut n = 1;
        // walk back while the moves in between were reversible: position i+1 has half == pos i half + 1
        let mut i = line.len() - 1;
        while i > 0 {
            if line[i].half == 0 {
                break; // the move leading to line[i] was irreversible
            }
            i -= 1;
            if line[i].key() == key {
                n += 1;
            }
        }
        n
    }

    /// value of `p` searched to `depth` plies, from the mover's point of view; `line` holds
    /// history + path down to and including `p`.
    pub fn negamax(&mut self, line: &mut Vec<Pos>, ply: usize, depth: usize) -> i32 {
        self.nodes += 1;
        let p = line.last().unwrap().clone();
        if let Some(rule) = self.repetition {
            if Self::occurrences(line) >= 3 {
                let sign = if ply % 2 == 0 { 1 } else { -1 };
                return rule.draw + sign * rule.contempt;
            }
        }
        let moves = p.legal();
        if moves.is_empty() {
            return (self.eval)(&p, false);
        }
        if ply == depth {
            return self.quiesce(&p);
        }
        let mut best = i32::MIN;
        for m in moves {
            line.push(p.make(&m));
            let v = -self.negamax(line, ply + 1, depth);
            line.pop();
            if v > best {
                best = v;
            }
        }
        best
    }

    /// same value as `negamax` (repetition rule off), computed with fail-soft alpha-beta: exact on a
    /// full window. Used where the plain tree is too large; equality with `negamax` is part of the
    /// self-test and of the thorough runs.
    pub fn negamax_ab(&mut self, p: &Pos, ply: usize, depth: usize, mut alpha: i32, beta: i32) -> i32 {
        self.nodes += 1;
        let mut moves = p.legal();
        if moves.is_empty() {
            return (self.eval)(p, false);
        }
        if ply == depth {
            return self.quiesce_ab(p, alpha, beta);
        }
        // captures and promotions first: pure ordering, no effect on the value
        moves.sort_by_key(|m| (-(m.captured as i32) * 16 - (m.promo as i32) * 4 + m.piece as i32, m.from, m.to));
        let mut best = -i32::MAX;
        for m in moves {
            let v = -self.negamax_ab(&p.make(&m), ply + 1, depth, -beta, -alpha);
            if v > best {
                best = v;
                if v > alpha {
                    alpha = v;
                }
                if alpha >= beta {
                    break;
                }
            }
        }
        best
    }

    /// alpha-beta on the tree of lines with the repetition rule (values are path dependent, the
    /// tree is searched as a tree — no table — so full-window alpha-beta is still exact)
    pub fn negamax_ab_rep(&mut self, line: &mut Vec<Pos>, ply: usize, depth: usize, mut alpha: i32, beta: i32) -> i32 {
        self.nodes += 1;
        let p = line.last().unwrap().clone();
        if let Some(rule) = self.repetition {
            if Self::occurrences(line) >= 3 {
                let sign = if ply % 2 == 0 { 1 } else { -1 };
                return rule.draw + sign * rule.contempt;
            }
        }
        let mut moves = p.legal();
        if moves.is_empty() {
            return (self.eval)(&p, false);
        }
        if ply == depth {
            return self.quiesce_ab(&p, alpha, beta);
        }
        moves.sort_by_key(|m| (-(m.captured as i32) * 16 - (m.promo as i32) * 4 + m.piece as i32, m.from, m.to));
        let mut best = -i32::MAX;
        for m in moves {
            line.push(p.make(&m));
            let v = -self.negamax_ab_rep(line, ply + 1, depth, -beta, -alpha);
            line.pop();
            if v > best {
                best = v;
                if v > alpha {
                    alpha = v;
                }
                if alpha >= beta {
                    break;
                }
            }
        }
        best
    }

    /// root value with history + repetition rule, alpha-beta
    pub fn root_value_ab_rep(&mut self, root: &Pos, depth: usize) -> i32 {
        let mut line = self.history.clone();
        line.push(root.clone());
        self.negamax_ab_rep(&mut line, 0, depth, -i32::MAX, i32::MAX)
    }

    /// root values of every legal move with the alpha-beta reference (each child on a full window,
    /// so every listed value is exact)
    pub fn root_ab(&mut self, root: &Pos, depth: usize) -> (i32, Vec<(Mv, i32)>) {
        let mut out = Vec::new();
        let mut best = -i32::MAX;
        for m in root.legal() {
            let v = -self.negamax_ab(&root.make(&m), 1, depth, -i32::MAX, i32::MAX);
            out.push((m, v));
            if v > best {
                best = v;
            }
        }
        (best, out)
    }

    /// root search: returns (value, for every legal root move its value)
    pub fn root(&mut self, root: &Pos, depth: usize, searchmoves: Option<&[String]>) -> (i32, Vec<(Mv, i32)>) {
        let mut line = self.history.clone();
        line.push(root.clone());
        let mut out = Vec::new();
        let mut best = i32::MIN;
        for m in root.legal() {
            if let Some(sm) = searchmoves {
                if !sm.is_empty() && !sm.contains(&m.uci()) {
                    continue;
                }
            }
            line.push(root.make(&m));
            let v = -self.negamax(&mut line, 1, depth);
            line.pop();
            out.push((m, v));
            if v > best {
                best = v;
            }
        }
        (best, out)
    }
}

/// Distance-to-mate tables by forward iteration over a closed set of positions.
/// Result: key -> n where n > 0 means "side to move mates in n moves", n < 0 means "side to
/// move is mated in -n moves" (n = 0 is not used; mated now is recorded as i8::MIN marker -128 -> use `MATED_NOW`).
pub const MATED_NOW: i8 = -100;

pub fn mate_tables(positions: &[Pos], max_n: i8) -> HashMap<Key, i8> {
    let mut t: HashMap<Key, i8> = HashMap::new();
    for p in positions {
        if p.is_mate() {
            t.insert(p.key(), MATED_NOW);
        }
    }
    for n in 1..=max_n {
        // win in n: some move leads to a position that is mated-now (n == 1) or lost in n-1
        let mut wins = Vec::new();
        for p in positions {
            let k = p.key();
            if t.contains_key(&k) {
                continue;
            }
            let target = if n == 1 { MATED_NOW } else { -(n - 1) };
            if p.legal().iter().any(|m| t.get(&p.make(m).key()) == Some(&target)) {
                wins.push(k);
            }
        }
        for k in wins {
            t.insert(k, n);
        }
        // lost in n: has moves, and every move leads to a position won in <= n (at least one == n)
        let mut losses = Vec::new();
        for p in positions {
            let k = p.key();
            if t.contains_key(&k) {
                continue;
            }
            let ms = p.legal();
            if ms.is_empty() {
                continue;
            }
            let mut all = true;
            let mut worst = 0;
            for m in &ms {
                match t.get(&p.make(m).key()) {
                    Some(&v) if v > 0 && v <= n => worst = worst.max(v),
                    _ => {
                        all = false;
                        break;
                    }
                }
            }
            if all && worst == n {
                losses.push(k);
            }
        }
        for k in losses {
            t.insert(k, -n);
        }
    }
    t
}
