//! Hand-written FEN writer, strict reader and three-valued classifier.

use crate::*;

pub fn write(p: &Pos, six: bool) -> String {
    let mut s = String::new();
    for row in 0..8 {
        let mut empties = 0;
        for file in 0..8 {
            let q = p.board[file + 8 * row];
            if q == EMPTY {
                empties += 1;
            } else {
                if empties > 0 {
                    s.push((b'0' + empties) as char);
                    empties = 0;
                }
                s.push(piece_char(q));
            }
        }
        if empties > 0 {
            s.push((b'0' + empties) as char);
        }
        if row < 7 {
            s.push('/');
        }
    }
    s.push(' ');
    s.push(if p.stm == WHITE { 'w' } else { 'b' });
    s.push(' ');
    if p.castle == 0 {
        s.push('-');
    } else {
        for (bit, c) in [(CASTLE_WK, 'K'), (CASTLE_WQ, 'Q'), (CASTLE_BK, 'k'), (CASTLE_BQ, 'q')] {
            if p.castle & bit != 0 {
                s.push(c);
            }
        }
    }
    s.push(' ');
    if p.ep == NO_EP {
        s.push('-');
    } else {
        s.push_str(&sq_name(p.ep));
    }
    if six {
        s.push_str(&format!(" {} {}", p.half, p.full));
    }
    s
}

#[derive(Debug, Clone, PartialEq)]
pub enum FenClass {
    /// grammatically valid and canonical; decodes to this position. `legal` says whether the
    /// position passes the legality predicate (only then is acceptance *required*).
    Valid { pos: Pos, legal: bool, six_fields: bool },
    /// breaks the grammar in one of the ways the property lists: must be rejected
    Invalid(&'static str),
    /// conventions differ: only "no panic" (and consistent decode if accepted) is required.
    /// `lenient` is the decode a tolerant reader would produce, if there is an obvious one.
    Unspecified { why: &'static str, lenient: Option<Pos> },
}

fn parse_placement(s: &str) -> Result<[u8; 64], &'static str> {
    let ranks: Vec<&str> = s.split('/').collect();
    if ranks.len() != 8 {
        return Err("rank count");
    }
    let mut board = [0u8; 64];
    for (row, rank) in ranks.iter().enumerate() {
        let mut file = 0usize;
        let mut last_digit = false;
        if rank.is_empty() {
            return Err("empty rank");
        }
        for ch in rank.chars() {
            match ch {
                '1'..='8' => {
                    if last_digit {
                        return Err("adjacent digits");
                    }
                    last_digit = true;
                    file += ch as usize - '0' as usize;
                }
                'P' | 'N' | 'B' | 'R' | 'Q' | 'K' | 'p' | 'n' | 'b' | 'r' | 'q' | 'k' => {
                    last_digit = false;
                    if file >= 8 {
                        return Err("rank too long");
                    }
                    let kind = match ch.to_ascii_lowercase() {
                        'p' => PAWN,
                        'n' => KNIGHT,
                        'b' => BISHOP,
                        'r' => ROOK,
                        'q' => QUEEN,
                        _ => KING,
                    };
                    let color = if ch.is_ascii_uppercase() { WHITE } else { BLACK };
                    board[file + 8 * row] = pc(color, kind);
                    file += 1;
                }
                _ => return Err("illegal character in placement"),
            }
        }
        if file != 8 {
            return Err("rank does not sum to eight");
        }
    }
    Ok(board)
}

pub fn classify(s: &str) -> FenClass {
    use FenClass::*;
    // whitespace anomalies: conventions differ (trim / split on runs) -> unspecified
    if s.chars().any(|c| c.is_whitespace() && c != ' ') {
        return Unspecified { why: "non-space whitespace", lenient: None };
    }
    if s.starts_with(' ') || s.ends_with(' ') || s.contains("  ") {
        return Unspecified { why: "leading/trailing/double blank", lenient: None };
    }
    if s == "startpos" {
        return Unspecified { why: "startpos alias", lenient: None };
    }
    let fields: Vec<&str> = s.split(' ').collect();
    if fields.len() != 4 && fields.len() != 6 {
        return Invalid("field count");
    }
    let board = match parse_placement(fields[0]) {
        Ok(b) => b,
        Err(e) => return Invalid(e),
    };
    let stm = match fields[1] {
        "w" => WHITE,
        "b" => BLACK,
        _ => return Invalid("side to move"),
    };
    let mut unspecified: Option<&'static str> = None;
    let mut castle = 0u8;
    if fields[2] != "-" {
        if fields[2].is_empty() {
            return Invalid("castling");
        }
        let mut last = 0u8;
        for ch in fields[2].chars() {
            let bit = match ch {
                'K' => CASTLE_WK,
                'Q' => CASTLE_WQ,
                'k' => CASTLE_BK,
                'q' => CASTLE_BQ,
                'A'..='H' | 'a'..='h' => {
                    return Unspecified { why: "shredder/x-fen castling letters", lenient: None };
                }
                _ => return Invalid("castling"),
            };
            if bit <= last {
                unspecified = Some("castling order/repeat");
            }
            last = bit;
            castle |= bit;
        }
    }
    let mut ep = NO_EP;
    if fields[3] != "-" {
        let b = fields[3].as_bytes();
        if b.len() != 2 || !(b'a'..=b'h').contains(&b[0]) || !(b'1'..=b'8').contains(&b[1]) {
            return Invalid("en passant");
        }
        if b[1] != b'3' && b[1] != b'6' {
            unspecified = Some("e.p. rank not 3/6");
        }
        ep = sq_from_name(fields[3]).unwrap();
    }
    let (mut half, mut full) = (0u64, 1u64);
    if fields.len() == 6 {
        for (i, f) in [fields[4], fields[5]].iter().enumerate() {
            if f.is_empty() {
                return Invalid("empty clock");
            }
            let body = if let Some(rest) = f.strip_prefix('+') {
                unspecified = Some("plus sign");
                rest
            } else {
                f
            };
            if body.is_empty() || !body.bytes().all(|c| c.is_ascii_digit()) {
                return Invalid("clock not a number");
            }
            if body.len() > 1 && body.starts_with('0') {
                unspecified = Some("leading zero");
            }
            let v: u64 = match body.parse::<u64>() {
                Ok(v) if v <= u32::MAX as u64 => v,
                _ => {
                    return Unspecified { why: "clock wider than 32 bits", lenient: None };
                }
            };
            if i == 0 {
                half = v
            } else {
                full = v
            }
        }
        if full == 0 {
            unspecified = Some("full-move number 0");
        }
    }
    let pos = Pos { board, stm, castle, ep, half, full };
    if let Some(why) = unspecified {
        return Unspecified { why, lenient: Some(pos) };
    }
    let legal = pos.is_legal_position();
    Valid { pos, legal, six_fields: fields.len() == 6 }
}

/// strict parse: only canonical, grammatical FENs (legal or not)
pub fn parse_strict(s: &str) -> Result<Pos, String> {
    match classify(s) {
        FenClass::Valid { pos, .. } => Ok(pos),
        FenClass::Invalid(e) => Err(e.to_string()),
        FenClass::Unspecified { why, .. } => Err(format!("unspecified: {}", why)),
    }
}
