//! refchess — the reference model (oracle) used by every board-level check.
//!
//! Written from the rules of chess, sharing no code and no representation with
//! the subject: mailbox board, ray walking by (file, rank) deltas, no bitboards,
//! no magic tables, no regex.
//!
//! Square numbering: index = file + 8 * row, row 0 = rank 8 (so a8 = 0, h1 = 63).

pub mod fen;
pub mod san;
pub mod search;


pub const WHITE: u8 = 0;
pub const BLACK: u8 = 1;

pub const EMPTY: u8 = 0;
pub const PAWN: u8 = 1;
pub const KNIGHT: u8 = 2;
pub const BISHOP: u8 = 3;
pub const ROOK: u8 = 4;
pub const QUEEN: u8 = 5;
pub const KING: u8 = 6;

pub const NO_EP: u8 = 64;

pub const CASTLE_WK: u8 = 1;
pub const CASTLE_WQ: u8 = 2;
pub const CASTLE_BK: u8 = 4;
pub const CASTLE_BQ: u8 = 8;

/// piece code: 0 = empty, 1..=6 white PNBRQK, 7..=12 black pnbrqk
#[inline]
pub fn pc(color: u8, kind: u8) -> u8 {
    kind + 6 * color
}
#[inline]
pub fn pc_color(p: u8) -> u8 {
    if p > 6 {
        BLACK
    } else {
        WHITE
    }
}
#[inline]
pub fn pc_kind(p: u8) -> u8 {
    if p > 6 {
        p - 6
    } else {
        p
    }
}
#[inline]
pub fn file_of(sq: u8) -> i8 {
    (sq % 8) as i8
}
#[inline]
pub fn row_of(sq: u8) -> i8 {
    (sq / 8) as i8
}
#[inline]
pub fn sq_at(file: i8, row: i8) -> Option<u8> {
    if (0..8).contains(&file) && (0..8).contains(&row) {
        Some((file + 8 * row) as u8)
    } else {
        None
    }
}
pub fn sq_name(sq: u8) -> String {
    let f = (b'a' + sq % 8) as char;
    let r = (b'8' - sq / 8) as char;
    format!("{}{}", f, r)
}
pub fn sq_from_name(s: &str) -> Option<u8> {
    let b = s.as_bytes();
    if b.len() != 2 || !(b'a'..=b'h').contains(&b[0]) || !(b'1'..=b'8').contains(&b[1]) {
        return None;
    }
    Some((b[0] - b'a') + 8 * (b'8' - b[1]))
}
pub fn kind_letter_lower(kind: u8) -> char {
    match kind {
        PAWN => 'p',
        KNIGHT => 'n',
        BISHOP => 'b',
        ROOK => 'r',
        QUEEN => 'q',
        KING => 'k',
        _ => '?',
    }
}
pub fn piece_char(p: u8) -> char {
    let c = kind_letter_lower(pc_kind(p));
    if pc_color(p) == WHITE {
        c.to_ascii_uppercase()
    } else {
        c
    }
}

#[derive(Clone, Copy, PartialEq, Eq, Hash, Debug, PartialOrd, Ord)]
pub struct Mv {
    pub from: u8,
    pub to: u8,
    /// promotion piece kind, 0 if none
    pub promo: u8,
    /// kind of the moving piece
    pub piece: u8,
    /// kind of the captured piece, 0 if none (PAWN for e.p.)
    pub captured: u8,
    pub is_ep: bool,
    pub is_castle: bool,
}

impl Mv {
    pub fn uci(&self) -> String {
        let mut s = format!("{}{}", sq_name(self.from), sq_name(self.to));
        if self.promo != 0 {
            s.push(kind_letter_lower(self.promo));
        }
        s
    }
    pub fn is_capture(&self) -> bool {
        self.captured != 0
    }
}

#[derive(Clone, PartialEq, Eq, Hash, Debug)]
pub struct Pos {
    pub board: [u8; 64],
    pub stm: u8,
    pub castle: u8,
    pub ep: u8,
    pub half: u64,
    pub full: u64,
}

/// exact position key: placement, side, rights, e.p. (no clocks). 34 bytes.
#[derive(Clone, Copy, PartialEq, Eq, Hash, PartialOrd, Ord, Debug)]
pub struct Key(pub [u8; 34]);

const KNIGHT_D: [(i8, i8); 8] = [(1, 2), (2, 1), (2, -1), (1, -2), (-1, -2), (-2, -1), (-2, 1), (-1, 2)];
const KING_D: [(i8, i8); 8] = [(0, 1), (1, 1), (1, 0), (1, -1), (0, -1), (-1, -1), (-1, 0), (-1, 1)];
const ROOK_D: [(i8, i8); 4] = [(0, 1), (1, 0), (0, -1), (-1, 0)];
const BISHOP_D: [(i8, i8); 4] = [(1, 1), (1, -1), (-1, -1), (-1, 1)];

impl Pos {
    pub fn empty() -> Pos {
        Pos { board: [0; 64], stm: WHITE, castle: 0, ep: NO_EP, half: 0, full: 1 }
    }
    pub fn startpos() -> Pos {
        Pos::from_fen("rnbqkbnr/pppppppp/8/8/8/8/PPPPPPPP/RNBQKBNR w KQkq - 0 1").unwrap()
    }
    pub fn from_fen(s: &str) -> Result<Pos, String> {
        fen::parse_strict(s)
    }
    pub fn to_fen(&self) -> String {
        fen::write(self, true)
    }
    pub fn to_fen4(&self) -> String {
        fen::write(self, false)
    }

    pub fn key(&self) -> Key {
        let mut k = [0u8; 34];
        for i in 0..32 {
            k[i] = self.board[2 * i] | (self.board[2 * i + 1] << 4);
        }
        k[32] = self.stm | (self.castle << 1);
        k[33] = self.ep;
        Key(k)
    }

    pub fn king_sq(&self, color: u8) -> Option<u8> {
        let k = pc(color, KING);
        (0..64u8).find(|&s| self.board[s as usize] == k)
    }

    /// is `sq` attacked by any piece of colour `by`?
    pub fn attacked(&self, sq: u8, by: u8) -> bool {
        let f = file_of(sq);
        let r = row_of(sq);
        // pawns: a white pawn on (f±1, r+1) attacks (f, r) since white pawns move towards row 0
        let prow = if by == WHITE { r + 1 } else { r - 1 };
        for df in [-1i8, 1] {
            if let Some(s) = sq_at(f + df, prow) {
                if self.board[s as usize] == pc(by, PAWN) {
                    return true;
                }
            }
        }
        for (df, dr) in KNIGHT_D {
            if let Some(s) = sq_at(f + df, r + dr) {
                if self.board[s as usize] == pc(by, KNIGHT) {
                    return true;
                }
            }
        }
        for (df, dr) in KING_D {
            if let Some(s) = sq_at(f + df, r + dr) {
                if self.board[s as usize] == pc(by, KING) {
                    return true;
                }
            }
        }
        for (df, dr) in ROOK_D {
            let (mut cf, mut cr) = (f + df, r + dr);
            while let Some(s) = sq_at(cf, cr) {
                let p = self.board[s as usize];
                if p != EMPTY {
                    if p == pc(by, ROOK) || p == pc(by, QUEEN) {
                        return true;
                    }
                    break;
                }
                cf += df;
                cr += dr;
            }
        }
        for (df, dr) in BISHOP_D {
            let (mut cf, mut cr) = (f + df, r + dr);
            while let Some(s) = sq_at(cf, cr) {
                let p = self.board[s as usize];
                if p != EMPTY {
                    if p == pc(by, BISHOP) || p == pc(by, QUEEN) {
                        return true;
                    }
                    break;
                }
                cf += df;
                cr += dr;
            }
        }
        false
    }

    /// number of enemy pieces attacking `sq` (for double-check counters)
    pub fn attackers(&self, sq: u8, by: u8) -> Vec<(u8, u8)> {
        let mut out = Vec::new();
        for s in 0..64u8 {
            let p = self.board[s as usize];
            if p == EMPTY || pc_color(p) != by {
                continue;
            }
            if self.piece_attacks(s, sq) {
                out.push((s, pc_kind(p)));
            }
        }
        out
    }

    /// does the piece standing on `from` attack `target` (ignoring whose turn it is)?
    pub fn piece_attacks(&self, from: u8, target: u8) -> bool {
        let p = self.board[from as usize];
        if p == EMPTY || from == target {
            return false;
        }
        let (f, r) = (file_of(from), row_of(from));
        let (tf, tr) = (file_of(target), row_of(target));
        let (df, dr) = (tf - f, tr - r);
        match pc_kind(p) {
            PAWN => {
                let fwd = if pc_color(p) == WHITE { -1 } else { 1 };
                dr == fwd && df.abs() == 1
            }
            KNIGHT => (df.abs() == 1 && dr.abs() == 2) || (df.abs() == 2 && dr.abs() == 1),
            KING => df.abs() <= 1 && dr.abs() <= 1,
            k => {
                let straight = df == 0 || dr == 0;
                let diag = df.abs() == dr.abs();
                let ok = match k {
                    ROOK => straight,
                    BISHOP => diag,
                    _ => straight || diag,
                };
                if !ok {
                    return false;
                }
                let (sf, sr) = (df.signum(), dr.signum());
                let (mut cf, mut cr) = (f + sf, r + sr);
                while (cf, cr) != (tf, tr) {
                    if self.board[(cf + 8 * cr) as usize] != EMPTY {
                        return false;
                    }
                    cf += sf;
                    cr += sr;
                }
                true
            }
        }
    }

    pub fn in_check(&self, color: u8) -> bool {
        match self.king_sq(color) {
            Some(k) => self.attacked(k, 1 - color),
            None => false,
        }
    }

    fn push_pawn_moves(&self, out: &mut Vec<Mv>, from: u8, to: u8, captured: u8, is_ep: bool) {
        let last_row = if self.stm == WHITE { 0 } else { 7 };
        if row_of(to) == last_row {
            for promo in [QUEEN, ROOK, BISHOP, KNIGHT] {
                out.push(Mv { from, to, promo, piece: PAWN, captured, is_ep: false, is_castle: false });
            }
        } else {
            out.push(Mv { from, to, promo: 0, piece: PAWN, captured, is_ep, is_castle: false });
        }
    }

    /// all pseudo-legal moves (own king may be left in check); castling is fully checked
    /// (rights, empty squares, king not in check, not through, not into check).
    pub fn pseudo_legal(&self) -> Vec<Mv> {
        let mut out = Vec::with_capacity(48);
        let me = self.stm;
        let opp = 1 - me;
        for from in 0..64u8 {
            let p = self.board[from as usize];
            if p == EMPTY || pc_color(p) != me {
                continue;
            }
            let (f, r) = (file_of(from), row_of(from));
            let kind = pc_kind(p);
            match kind {
                PAWN => {
                    let fwd: i8 = if me == WHITE { -1 } else { 1 };
                    let start_row = if me == WHITE { 6 } else { 1 };
                    if let Some(t) = sq_at(f, r + fwd) {
                        if self.board[t as usize] == EMPTY {
                            self.push_pawn_moves(&mut out, from, t, 0, false);
                            if r == start_row {
                                let t2 = sq_at(f, r + 2 * fwd).unwrap();
                                if self.board[t2 as usize] == EMPTY {
                                    out.push(Mv { from, to: t2, promo: 0, piece: PAWN, captured: 0, is_ep: false, is_castle: false });
                                }
                            }
                        }
                    }
                    for df in [-1i8, 1] {
                        if let Some(t) = sq_at(f + df, r + fwd) {
                            let q = self.board[t as usize];
                            if q != EMPTY && pc_color(q) == opp {
                                self.push_pawn_moves(&mut out, from, t, pc_kind(q), false);
                            } else if q == EMPTY && t == self.ep && self.ep != NO_EP {
                                // e.p.: only meaningful when the captured pawn is where it should be
                                let cap_sq = sq_at(f + df, r).unwrap();
                                if self.board[cap_sq as usize] == pc(opp, PAWN) {
                                    out.push(Mv { from, to: t, promo: 0, piece: PAWN, captured: PAWN, is_ep: true, is_castle: false });
                                }
                            }
                        }
                    }
                }
                KNIGHT | KING => {
                    let ds = if kind == KNIGHT { &KNIGHT_D } else { &KING_D };
                    for &(df, dr) in ds.iter() {
                        if let Some(t) = sq_at(f + df, r + dr) {
                            let q = self.board[t as usize];
                            if q == EMPTY || pc_color(q) == opp {
                                out.push(Mv { from, to: t, promo: 0, piece: kind, captured: pc_kind(q) * (q != EMPTY) as u8, is_ep: false, is_castle: false });
                            }
                        }
                    }
                }
                _ => {
                    const QUEEN_D: [(i8, i8); 8] = [(0, 1), (1, 0), (0, -1), (-1, 0), (1, 1), (1, -1), (-1, -1), (-1, 1)];
                    let dirs: &[(i8, i8)] = match kind {
                        ROOK => &ROOK_D,
                        BISHOP => &BISHOP_D,
                        _ => &QUEEN_D,
                    };
                    for &(df, dr) in dirs {
                        let (mut cf, mut cr) = (f + df, r + dr);
                        while let Some(t) = sq_at(cf, cr) {
                            let q = self.board[t as usize];
                            if q == EMPTY {
                                out.push(Mv { from, to: t, promo: 0, piece: kind, captured: 0, is_ep: false, is_castle: false });
                            } else {
                                if pc_color(q) == opp {
                                    out.push(Mv { from, to: t, promo: 0, piece: kind, captured: pc_kind(q), is_ep: false, is_castle: false });
                                }
                                break;
                            }
                            cf += df;
                            cr += dr;
                        }
                    }
                }
            }
        }
        // castling (FIDE 3.8.2)
        let (home_row, kbit, qbit) = if me == WHITE { (7i8, CASTLE_WK, CASTLE_WQ) } else { (0i8, CASTLE_BK, CASTLE_BQ) };
        let e = sq_at(4, home_row).unwrap();
        if self.board[e as usize] == pc(me, KING) {
            let sq = |f: i8| sq_at(f, home_row).unwrap();
            if self.castle & kbit != 0
                && self.board[sq(7) as usize] == pc(me, ROOK)
                && self.board[sq(5) as usize] == EMPTY
                && self.board[sq(6) as usize] == EMPTY
                && !self.attacked(sq(4), opp)
                && !self.attacked(sq(5), opp)
                && !self.attacked(sq(6), opp)
            {
                out.push(Mv { from: e, to: sq(6), promo: 0, piece: KING, captured: 0, is_ep: false, is_castle: true });
            }
            if self.castle & qbit != 0
                && self.board[sq(0) as usize] == pc(me, ROOK)
                && self.board[sq(1) as usize] == EMPTY
                && self.board[sq(2) as usize] == EMPTY
                && self.board[sq(3) as usize] == EMPTY
                && !self.attacked(sq(4), opp)
                && !self.attacked(sq(3), opp)
                && !self.attacked(sq(2), opp)
            {
                out.push(Mv { from: e, to: sq(2), promo: 0, piece: KING, captured: 0, is_ep: false, is_castle: true });
            }
        }
        out
    }

    pub fn legal(&self) -> Vec<Mv> {
        let me = self.stm;
        let ksq = self.king_sq(me);
        self.pseudo_legal().into_iter().filter(|m| self.leaves_king_safe(m, ksq)).collect()
    }

    /// after `m`, is the mover's king not attacked? (`ksq` = mover's king square before the move)
    fn leaves_king_safe(&self, m: &Mv, ksq: Option<u8>) -> bool {
        let n = self.make(m);
        let k = if m.piece == KING { Some(m.to) } else { ksq };
        match k {
            Some(k) => !n.attacked(k, 1 - self.stm),
            None => true,
        }
    }

    pub fn has_legal_move(&self) -> bool {
        let ksq = self.king_sq(self.stm);
        self.pseudo_legal().into_iter().any(|m| self.leaves_king_safe(&m, ksq))
    }

    pub fn is_mate(&self) -> bool {
        self.in_check(self.stm) && !self.has_legal_move()
    }
    pub fn is_stalemate(&self) -> bool {
        !self.in_check(self.stm) && !self.has_legal_move()
    }

    /// successor position (copy-make). Follows the FEN convention "e.p. target after every
    /// double push".
    pub fn make(&self, m: &Mv) -> Pos {
        let mut n = self.clone();
        let me = self.stm;
        let p = self.board[m.from as usize];
        n.board[m.from as usize] = EMPTY;
        if m.is_ep {
            let cap_sq = sq_at(file_of(m.to), row_of(m.from)).unwrap();
            n.board[cap_sq as usize] = EMPTY;
        }
        n.board[m.to as usize] = if m.promo != 0 { pc(me, m.promo) } else { p };
        if m.is_castle {
            let row = row_of(m.from);
            if file_of(m.to) == 6 {
                n.board[sq_at(7, row).unwrap() as usize] = EMPTY;
                n.board[sq_at(5, row).unwrap() as usize] = pc(me, ROOK);
            } else {
                n.board[sq_at(0, row).unwrap() as usize] = EMPTY;
                n.board[sq_at(3, row).unwrap() as usize] = pc(me, ROOK);
            }
        }
        // rights: lost when king or rook leaves home, or something lands on a rook home square
        for sq in [m.from, m.to] {
            match sq {
                60 => n.castle &= !(CASTLE_WK | CASTLE_WQ),
                63 => n.castle &= !CASTLE_WK,
                56 => n.castle &= !CASTLE_WQ,
                4 => n.castle &= !(CASTLE_BK | CASTLE_BQ),
                7 => n.castle &= !CASTLE_BK,
                0 => n.castle &= !CASTLE_BQ,
                _ => {}
            }
        }
        n.ep = NO_EP;
        if m.piece == PAWN && (row_of(m.from) - row_of(m.to)).abs() == 2 {
            n.ep = sq_at(file_of(m.from), (row_of(m.from) + row_of(m.to)) / 2).unwrap();
        }
        if m.piece == PAWN || m.captured != 0 {
            n.half = 0;
        } else {
            n.half = self.half + 1;
        }
        if me == BLACK {
            n.full = self.full + 1;
        }
        n.stm = 1 - me;
        n
    }

    pub fn find_legal_uci(&self, uci: &str) -> Option<Mv> {
        self.legal().into_iter().find(|m| m.uci() == uci)
    }

    pub fn perft(&self, depth: u32) -> u64 {
        if depth == 0 {
            return 1;
        }
        let moves = self.legal();
        if depth == 1 {
            return moves.len() as u64;
        }
        moves.iter().map(|m| self.make(m).perft(depth - 1)).sum()
    }

    /// colour flip: mirror rows, swap colours, side to move, rights, e.p.
    pub fn flip(&self) -> Pos {
        let mut n = Pos::empty();
        for s in 0..64u8 {
            let p = self.board[s as usize];
            let t = sq_at(file_of(s), 7 - row_of(s)).unwrap();
            n.board[t as usize] = if p == EMPTY {
                EMPTY
            } else {
                pc(1 - pc_color(p), pc_kind(p))
            };
        }
        n.stm = 1 - self.stm;
        n.castle = ((self.castle & 3) << 2) | ((self.castle >> 2) & 3);
        n.ep = if self.ep == NO_EP { NO_EP } else { sq_at(file_of(self.ep), 7 - row_of(self.ep)).unwrap() };
        n.half = self.half;
        n.full = self.full;
        n
    }

    /// Legality predicate for enumerated placements (DESIGN §2.3).
    pub fn is_legal_position(&self) -> bool {
        let mut wk = 0;
        let mut bk = 0;
        for s in 0..64u8 {
            let p = self.board[s as usize];
            if p == pc(WHITE, KING) {
                wk += 1;
            }
            if p == pc(BLACK, KING) {
                bk += 1;
            }
            if pc_kind(p) == PAWN && p != EMPTY && (row_of(s) == 0 || row_of(s) == 7) {
                return false;
            }
        }
        if wk != 1 || bk != 1 {
            return false;
        }
        // kings not adjacent is implied by "side not to move not in check"
        if self.in_check(1 - self.stm) {
            return false;
        }
        // rights => king and rook at home
        let chk = |bit: u8, ksq: u8, rsq: u8, c: u8| -> bool { self.castle & bit == 0 || (self.board[ksq as usize] == pc(c, KING) && self.board[rsq as usize] == pc(c, ROOK)) };
        if !chk(CASTLE_WK, 60, 63, WHITE) || !chk(CASTLE_WQ, 60, 56, WHITE) || !chk(CASTLE_BK, 4, 7, BLACK) || !chk(CASTLE_BQ, 4, 0, BLACK) {
            return false;
        }
        if self.ep != NO_EP {
            // side to move `stm`; the pawn that just double-pushed belongs to the opponent.
            let (ep_row, pawn_row, origin_row) = if self.stm == WHITE { (2i8, 3i8, 1i8) } else { (5i8, 4i8, 6i8) };
            if row_of(self.ep) != ep_row {
                return false;
            }
            let f = file_of(self.ep);
            if self.board[self.ep as usize] != EMPTY {
                return false;
            }
            if self.board[sq_at(f, origin_row).unwrap() as usize] != EMPTY {
                return false;
            }
            if self.board[sq_at(f, pawn_row).unwrap() as usize] != pc(1 - self.stm, PAWN) {
                return false;
            }
            // before the double push the side now to move must not have been giving check
            // illegally: i.e. with the pawn moved back, the side that pushed must ... (the pusher's
            // king may have been in check and the push blocked it — legal). Nothing more to require.
        }
        true
    }

    pub fn piece_count(&self) -> usize {
        self.board.iter().filter(|&&p| p != EMPTY).count()
    }
}

#[cfg(test)]
mod tests {
    use super::*;
    #[test]
    fn start_perft() {
        let p = Pos::startpos();
        assert_eq!(p.perft(1), 20);
        assert_eq!(p.perft(2), 400);
        assert_eq!(p.perft(3), 8902);
    }
}
