//! SAN writer and independent three-valued SAN resolver.

use crate::*;

pub fn kind_letter_upper(kind: u8) -> char {
    kind_letter_lower(kind).to_ascii_uppercase()
}

/// Standard algebraic notation of legal move `m` in `p` (FIDE C.10 / PGN 8.2.3):
/// minimal disambiguation file -> rank -> both, `x`, `=Q`, `O-O`, `+`, `#` only for mate.
pub fn san(p: &Pos, m: &Mv) -> String {
    let after = p.make(m);
    let suffix = if after.in_check(after.stm) {
        if after.has_legal_move() {
            "+"
        } else {
            "#"
        }
    } else {
        ""
    };
    if m.is_castle {
        return format!("{}{}", if file_of(m.to) == 6 { "O-O" } else { "O-O-O" }, suffix);
    }
    let mut s = String::new();
    if m.piece == PAWN {
        if m.is_capture() {
            s.push((b'a' + m.from % 8) as char);
            s.push('x');
        }
        s.push_str(&sq_name(m.to));
        if m.promo != 0 {
            s.push('=');
            s.push(kind_letter_upper(m.promo));
        }
    } else {
        s.push(kind_letter_upper(m.piece));
        let others: Vec<Mv> = p.legal().into_iter().filter(|o| o.piece == m.piece && o.to == m.to && o.from != m.from).collect();
        if !others.is_empty() {
            let same_file = others.iter().any(|o| file_of(o.from) == file_of(m.from));
            let same_rank = others.iter().any(|o| row_of(o.from) == row_of(m.from));
            if !same_file {
                s.push((b'a' + m.from % 8) as char);
            } else if !same_rank {
                s.push((b'8' - m.from / 8) as char);
            } else {
                s.push_str(&sq_name(m.from));
            }
        }
        if m.is_capture() {
            s.push('x');
        }
        s.push_str(&sq_name(m.to));
    }
    s.push_str(suffix);
    s
}

#[derive(Clone, Debug, PartialEq, Eq)]
pub enum SanFields {
    Castle { long: bool, suffix: Option<char> },
    Normal { piece: Option<u8>, from_file: Option<i8>, from_row: Option<i8>, takes: bool, target: u8, promo: Option<u8>, suffix: Option<char> },
}

impl SanFields {
    pub fn text(&self) -> String {
        match self {
            SanFields::Castle { long, suffix } => {
                let mut s = String::from(if *long { "O-O-O" } else { "O-O" });
                if let Some(c) = suffix {
                    s.push(*c);
                }
                s
            }
            SanFields::Normal { piece, from_file, from_row, takes, target, promo, suffix } => {
                let mut s = String::new();
                if let Some(k) = piece {
                    s.push(kind_letter_upper(*k));
                }
                if let Some(f) = from_file {
                    s.push((b'a' + *f as u8) as char);
                }
                if let Some(r) = from_row {
                    s.push((b'8' - *r as u8) as char);
                }
                if *takes {
                    s.push('x');
                }
                s.push_str(&sq_name(*target));
                if let Some(k) = promo {
                    s.push('=');
                    s.push(kind_letter_upper(*k));
                }
                if let Some(c) = suffix {
                    s.push(*c);
                }
                s
            }
        }
    }
}

#[derive(Clone, Debug, PartialEq, Eq)]
pub enum SanVerdict {
    /// the text is the standard SAN of exactly this legal move: the parser must return it
    Exactly(Mv),
    /// the text denotes no legal move, or several: the parser must report an error
    MustErr,
    /// non-standard but not contradictory (over-disambiguated, capture mark omitted, wrong
    /// check suffix...): if the parser returns a move it must be this one
    Only(Mv),
}

/// moves consistent with every field that is present (check suffix ignored; a missing `x`
/// is no constraint, a present `x` requires a capture)
pub fn consistent_moves(p: &Pos, f: &SanFields) -> Vec<Mv> {
    p.legal()
        .into_iter()
        .filter(|m| match f {
            SanFields::Castle { long, .. } => m.is_castle && (file_of(m.to) == 2) == *long,
            SanFields::Normal { piece, from_file, from_row, takes, target, promo, .. } => {
                if m.piece != piece.unwrap_or(PAWN) {
                    return false;
                }
                if m.to != *target {
                    return false;
                }
                if let Some(ff) = from_file {
                    if file_of(m.from) != *ff {
                        return false;
                    }
                }
                if let Some(rr) = from_row {
                    if row_of(m.from) != *rr {
                        return false;
                    }
                }
                if *takes && !m.is_capture() {
                    return false;
                }
                match promo {
                    Some(k) => m.promo == *k,
                    None => true,
                }
            }
        })
        .collect()
}

pub fn resolve(p: &Pos, f: &SanFields) -> SanVerdict {
    let table: Vec<(Mv, String)> = p.legal().into_iter().map(|m| (m, san(p, &m))).collect();
    resolve_with(&table, f)
}

fn field_match(m: &Mv, f: &SanFields) -> bool {
    match f {
        SanFields::Castle { long, .. } => m.is_castle && (file_of(m.to) == 2) == *long,
        SanFields::Normal { piece, from_file, from_row, takes, target, promo, .. } => {
            m.piece == piece.unwrap_or(PAWN)
                && m.to == *target
                && from_file.map_or(true, |ff| file_of(m.from) == ff)
                && from_row.map_or(true, |rr| row_of(m.from) == rr)
                && (!*takes || m.is_capture())
                && promo.map_or(true, |k| m.promo == k)
        }
    }
}

/// same as `resolve`, with the legal moves and their standard SAN precomputed
pub fn resolve_with(table: &[(Mv, String)], f: &SanFields) -> SanVerdict {
    let text = f.text();
    let mut n = 0;
    let mut last = None;
    for (m, s) in table {
        if field_match(m, f) {
            if *s == text {
                return SanVerdict::Exactly(*m);
            }
            n += 1;
            last = Some(*m);
        }
    }
    if n == 1 {
        SanVerdict::Only(last.unwrap())
    } else {
        SanVerdict::MustErr
    }
}

/// Hand-written SAN tokenizer for strings produced elsewhere (PGN games): returns the fields.
pub fn parse_fields(s: &str) -> Option<SanFields> {
    let mut b: Vec<u8> = s.bytes().collect();
    let mut suffix = None;
    if let Some(&l) = b.last() {
        if l == b'+' || l == b'#' {
            suffix = Some(l as char);
            b.pop();
        }
    }
    if b == b"O-O" {
        return Some(SanFields::Castle { long: false, suffix });
    }
    if b == b"O-O-O" {
        return Some(SanFields::Castle { long: true, suffix });
    }
    let mut promo = None;
    if b.len() >= 2 && b[b.len() - 2] == b'=' {
        promo = Some(match b[b.len() - 1] {
            b'Q' => QUEEN,
            b'R' => ROOK,
            b'B' => BISHOP,
            b'N' => KNIGHT,
            _ => return None,
        });
        b.truncate(b.len() - 2);
    }
    if b.len() < 2 {
        return None;
    }
    let target = sq_from_name(std::str::from_utf8(&b[b.len() - 2..]).ok()?)?;
    b.truncate(b.len() - 2);
    let mut i = 0;
    let mut piece = None;
    if i < b.len() {
        piece = match b[i] {
            b'K' => Some(KING),
            b'Q' => Some(QUEEN),
            b'R' => Some(ROOK),
            b'B' => Some(BISHOP),
            b'N' => Some(KNIGHT),
            _ => None,
        };
        if piece.is_some() {
            i += 1;
        }
    }
    let mut from_file = None;
    if i < b.len() && (b'a'..=b'h').contains(&b[i]) {
        from_file = Some((b[i] - b'a') as i8);
        i += 1;
    }
    let mut from_row = None;
    if i < b.len() && (b'1'..=b'8').contains(&b[i]) {
        from_row = Some((b'8' - b[i]) as i8);
        i += 1;
    }
    let mut takes = false;
    if i < b.len() && b[i] == b'x' {
        takes = true;
        i += 1;
    }
    if i != b.len() {
        return None;
    }
    Some(SanFields::Normal { piece, from_file, from_row, takes, target, promo, suffix })
}
